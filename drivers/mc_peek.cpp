// vf-driver: kind=cxx flags=-std=gnu++20
/* mc_peek: runs a scenario of the S4U interpreter (s4u_core.hpp, notes/S4U_INTERP.md) the way an application runs under the
 * model checker, but under a schedule given by the request, and dumps what the checker would see plus the kernel state.
 *
 *   mc_peek <request.json|->  |  mc_peek --serve <errfile>      (fork server, one request per line)
 *
 * request {"scenario": {...}, "schedule": [step..], "branches": [[step..]..] | "pairs"?, "dump": "all"|"last"|"none"?, "hb": bool?}
 *   step = aid | [aid, times_considered] | {"pick": k, "tc": j, "lazy": bool} (the (k mod n)-th enabled actor by increasing aid;
 *   lazy: among the enabled actors that are not about to execute a WAIT / test, when there are some).
 *   branches "pairs": two branches [a, b], [b, a] per pair of distinct enabled actors (and alternative of each; same-family pairs
 *   first, pairs of pending simcalls already taken at an earlier step skipped), listed in a
 *   {"k":"branches","at":step,"first":index of the first one,"list":[..]} line; at most "maxbranches" (60) in total.
 *   "every": true takes the branches at every state of the schedule, not only after its last step;
 *   "related_only_before_end": true keeps, before the last state, only the pairs of one family (mutex+condvar, semaphore, ...).  The schedule is replayed with our own copy of the loop of RecordTrace::replay
 *   (src/mc/mc_record.cpp): run every actor until it blocks in a visible simcall, then repeatedly handle the simcall of the
 *   chosen actor and run the actors again.  MC_record_path() is set before the actors exist, so the s4u layer splits its
 *   blocking calls into the simcalls of the model checker, exactly as with --cfg=model-check/replay.
 *   After the schedule, each branch is executed in a forked copy of the process (the state after the schedule is shared).
 *
 * output (one JSON object per line; "br": branch index when inside a branch)
 *   {"k":"state","step":i,"actors":[{"aid","name","call","obs":bool,"visible","enabled","max","app": observer.to_string(),
 *                "pending":[{"tc","type","tname","chk": checker-side Transition::to_string(true)}..]}..],
 *                "dep":[rows]  pairwise dispatch_depends of the pending (tc=0) transitions, in the order of "actors",
 *                "fp": fingerprint of the kernel synchronisation state (no allocation-order dependent ids)}
 *   {"k":"exec","step":i,"aid","tc","app_before","app_after","type","tname","chk"}       after each handled simcall
 *   {"k":"error","step":i,"aid","why": "no-actor"|"no-observer"|"not-visible"|"disabled"|"bad-tc"}   the run stops there
 *   {"k":"final","n":executed transitions,"dep":[rows] pairwise dispatch_depends of the executed transitions (both ways),
 *                "hb":[rows],"races":[[..]..] of an odpor::Execution fed with them (when "hb" is requested)}
 *   {"k":"solo","a","b","dep_ab","dep_ba","chk_a","chk_b"}  ("solo": true, two-step branches) dependency between a executed
 *                from the branching state and b executed ALONE from the same state (in a forked copy; what sleep sets compare)
 *   {"k":"done"}
 * No oracle here.  Built with -fno-access-control.
 */
#include "s4u_core.hpp"

#include "src/kernel/EngineImpl.hpp"
#include "src/kernel/activity/BarrierImpl.hpp"
#include "src/kernel/activity/CommImpl.hpp"
#include "src/kernel/activity/ConditionVariableImpl.hpp"
#include "src/kernel/activity/MailboxImpl.hpp"
#include "src/kernel/activity/MessImpl.hpp"
#include "src/kernel/activity/MessageQueueImpl.hpp"
#include "src/kernel/activity/MutexImpl.hpp"
#include "src/kernel/activity/SemaphoreImpl.hpp"
#include "src/kernel/actor/ActorImpl.hpp"
#include "src/kernel/actor/CommObserver.hpp"
#include "src/kernel/actor/SimcallObserver.hpp"
#include "src/kernel/actor/SynchroObserver.hpp"
#include "src/kernel/actor/WaitTestObserver.hpp"
#include "src/mc/explo/odpor/Execution.hpp"
#include "src/mc/mc_record.hpp"
#include "src/mc/mc_replay.hpp"
#include "src/mc/remote/Channel.hpp"
#include "src/mc/transition/Transition.hpp"
#include "src/mc/transition/TransitionActor.hpp"
#include "src/mc/transition/TransitionAny.hpp"
#include "src/mc/transition/TransitionComm.hpp"
#include "src/mc/transition/TransitionRandom.hpp"
#include "src/mc/transition/TransitionSynchro.hpp"

#include "forkserver.hpp"

#include <set>
#include <sys/wait.h>

namespace mc  = simgrid::mc;
namespace act = simgrid::kernel::activity;
using simgrid::kernel::EngineImpl;
using simgrid::kernel::actor::ActorImpl;

namespace peek {

/* ---- actors: same body as vf::run_actor in mc mode, but the program counter and the observations are reachable ---- */
struct ActorRec {
  std::shared_ptr<vf::Ctx> ctx;
  int pc    = -1; // index of the operation in progress
  bool done = false;
};
static std::map<std::string, ActorRec> registry;
static json actor_specs;

static void actor_body(const std::string& name, const json* spec)
{
  ActorRec& rec = registry[name];
  rec.ctx       = std::make_shared<vf::Ctx>();
  vf::Ctx& c    = *rec.ctx;
  c.name        = name;
  c.ops         = &(*spec)["ops"];
  int idx       = 0;
  for (auto const& op : *c.ops) {
    rec.pc = idx;
    try {
      json r = vf::do_op(c, idx, op);
      c.obs->push_back(r);
    } catch (const simgrid::TimeoutException&) {
      c.obs->push_back("!Timeout");
    } catch (const simgrid::NetworkFailureException&) {
      c.obs->push_back("!NetworkFailure");
    } catch (const simgrid::HostFailureException&) {
      c.obs->push_back("!HostFailure");
    } catch (const simgrid::StorageFailureException&) {
      c.obs->push_back("!StorageFailure");
    } catch (const simgrid::CancelException&) {
      c.obs->push_back("!Cancel");
    } catch (const simgrid::VmFailureException&) {
      c.obs->push_back("!VmFailure");
    } catch (const simgrid::Exception& e) {
      c.obs->push_back(std::string("!simgrid::Exception:") + e.what());
    } catch (const std::invalid_argument& e) {
      c.obs->push_back(std::string("!invalid_argument:") + e.what());
    }
    idx++;
  }
  rec.pc   = idx;
  rec.done = true;
}

/* ---- the ten lines of mc_base.cpp that are hidden in the shared library ---- */
static bool request_is_visible(const simgrid::kernel::actor::Simcall* req)
{
  return req->observer_ != nullptr && req->observer_->is_visible();
}
static bool actor_is_enabled(ActorImpl* actor)
{
  auto* req = &actor->simcall_;
  if (req->observer_ != nullptr)
    return req->observer_->is_enabled();
  return req->call_ != simgrid::kernel::actor::Simcall::Type::NONE;
}
static void execute_actors()
{
  auto* engine = EngineImpl::get_instance();
  while (engine->has_actors_to_run()) {
    engine->run_all_actors();
    for (auto const& actor : engine->get_actors_that_ran()) {
      const auto* req = &actor->simcall_;
      if (req->call_ != simgrid::kernel::actor::Simcall::Type::NONE && not request_is_visible(req))
        actor->simcall_handle(0);
    }
  }
}
/* MC_process_clock_add() indexes the hidden vector mc::processes_time with .at(pid); the only exported code that sizes it is the
 * first statement of RecordTrace::replay(string), which then throws on an empty path before doing anything else. */
static void size_process_clocks()
{
  try {
    mc::RecordTrace::replay(std::string(""));
  } catch (const std::invalid_argument&) {
    /* expected */
  }
}

/* ---- loop-back: what AppSide sends, what the checker rebuilds ---- */
static mc::Channel* chan = nullptr;
struct Loop {
  mc::TransitionPtr t;
  size_t packed = 0; // bytes the observer packed
  size_t left   = 0; // bytes the checker-side constructor did not consume
  std::string err;   // serialisation / deserialisation failure (e.g. the checker wants more bytes than the application sent)
};
static Loop loopback_full(ActorImpl* actor, int times_considered)
{
  Loop l;
  chan->buffer_out_size_ = 0;
  chan->buffer_in_size_  = 0;
  chan->buffer_in_next_  = 0;
  try {
    actor->simcall_.observer_->serialize(*chan);
    l.packed = chan->buffer_out_size_;
    chan->reinject(chan->buffer_out_, chan->buffer_out_size_);
    chan->buffer_out_size_ = 0;
    l.t    = mc::TransitionPtr(mc::deserialize_transition(mc::Aid(static_cast<unsigned>(actor->get_pid())), times_considered, *chan));
    l.left = chan->buffer_in_size_;
  } catch (const std::exception& e) {
    l.err = std::string(typeid(e).name()) + ": " + e.what();
  }
  chan->buffer_out_size_ = 0;
  chan->buffer_in_size_  = 0;
  chan->buffer_in_next_  = 0;
  return l;
}
static mc::TransitionPtr loopback(ActorImpl* actor, int times_considered)
{
  return loopback_full(actor, times_considered).t;
}
static void loop_json(json& j, const Loop& l)
{
  j["packed"] = l.packed;
  j["left"]   = l.left;
  if (not l.err.empty())
    j["err"] = l.err;
  if (l.t) {
    j["type"]  = static_cast<int>(l.t->type_);
    j["tname"] = mc::Transition::to_c_str(l.t->type_);
    try {
      j["chk"] = l.t->to_string(true);
    } catch (const std::exception& e) {
      j["chk_err"] = e.what();
    }
  }
}
static json app_fields(simgrid::kernel::actor::SimcallObserver* o);
static json chk_fields(const mc::Transition* t);

/* ---- what the application encodes (read from the live kernel objects the observer designates, NOT from the packed bytes) and
 *      what the checker decoded, under the same keys ---- */
namespace kact = simgrid::kernel::actor;
static long pid_or(const ActorImpl* a)
{
  return a == nullptr ? -1 : a->get_pid();
}
static json comm_test_fields(const act::ActivityImpl* a)
{
  if (const auto* comm = dynamic_cast<const act::CommImpl*>(a))
    return {{"type", "COMM_TEST"}, {"comm", comm->get_id()}, {"sender", pid_or(comm->src_actor_.get())},
            {"receiver", pid_or(comm->dst_actor_.get())}, {"mbox", comm->get_mailbox_id()}};
  return {{"type", "UNKNOWN"}, {"activity", typeid(*a).name()}};
}
static json comm_wait_fields(const act::ActivityImpl* a, double timeout)
{
  if (const auto* comm = dynamic_cast<const act::CommImpl*>(a))
    return {{"type", "COMM_WAIT"}, {"timeout", timeout > 0}, {"comm", comm->get_id()}, {"sender", pid_or(comm->src_actor_.get())},
            {"receiver", pid_or(comm->dst_actor_.get())}, {"mbox", comm->get_mailbox_id()}};
  return {{"type", "UNKNOWN"}, {"activity", typeid(*a).name()}};
}
static json app_fields(kact::SimcallObserver* o)
{
  using T = mc::Transition;
  json f;
  f["aid"] = o->get_issuer()->get_pid();
  if (auto* m = dynamic_cast<kact::MutexObserver*>(o)) {
    f.update({{"type", T::to_c_str(m->type_)}, {"mutex", m->mutex_->get_id()}, {"owner", pid_or(m->mutex_->get_owner())}});
  } else if (auto* ma = dynamic_cast<kact::MutexAcquisitionObserver*>(o)) {
    f.update({{"type", T::to_c_str(ma->type_)}, {"mutex", ma->acquisition_->get_mutex()->get_id()},
              {"owner", pid_or(ma->acquisition_->get_mutex()->get_owner())}});
  } else if (auto* se = dynamic_cast<kact::SemaphoreObserver*>(o)) {
    f.update({{"type", T::to_c_str(se->type_)}, {"sem", se->sem_->get_id()}, {"value", se->sem_->value_},
              {"waiting", se->sem_->ongoing_acquisitions_.size()}});
  } else if (auto* sa = dynamic_cast<kact::SemaphoreAcquisitionObserver*>(o)) {
    f.update({{"type", T::to_c_str(sa->type_)}, {"sem", sa->acquisition_->semaphore_->get_id()}, {"granted", sa->acquisition_->granted_},
              {"value", sa->acquisition_->semaphore_->value_}, {"waiting", sa->acquisition_->semaphore_->ongoing_acquisitions_.size()}});
  } else if (auto* b = dynamic_cast<kact::BarrierObserver*>(o)) {
    f.update({{"type", T::to_c_str(b->type_)}, {"barrier", b->barrier_ != nullptr ? b->barrier_->get_id() : b->acquisition_->barrier_->get_id()}});
  } else if (auto* cv = dynamic_cast<kact::ConditionVariableObserver*>(o)) {
    f.update({{"type", T::to_c_str(cv->type_)}, {"cond", cv->cond_->get_id()}});
    if (cv->type_ == T::Type::CONDVAR_ASYNC_LOCK || cv->type_ == T::Type::CONDVAR_WAIT)
      f["mutex"] = cv->mutex_->get_id();
    if (cv->type_ == T::Type::CONDVAR_WAIT) {
      f["granted"] = cv->acquisition_->is_granted();
      f["timeout"] = cv->timeout_ > 0;
    }
  } else if (auto* is = dynamic_cast<kact::CommIsendSimcall*>(o)) {
    f.update({{"type", "COMM_ASYNC_SEND"}, {"comm", is->comm_ ? is->comm_->get_id() : 0}, {"mbox", is->mbox_->get_id()}, {"tag", is->tag_}});
  } else if (auto* ir = dynamic_cast<kact::CommIrecvSimcall*>(o)) {
    f.update({{"type", "COMM_ASYNC_RECV"}, {"comm", ir->comm_ ? ir->comm_->get_id() : 0}, {"mbox", ir->mbox_->get_id()}, {"tag", ir->tag_}});
  } else if (auto* ip = dynamic_cast<kact::IprobeSimcall*>(o)) {
    f.update({{"type", "COMM_IPROBE"}, {"mbox", ip->mbox_->get_id()}, {"is_sender", ip->kind_ == sg4::Mailbox::IprobeKind::SEND}, {"tag", ip->tag_}});
  } else if (auto* mp = dynamic_cast<kact::MessIputSimcall*>(o)) {
    f.update({{"type", "MESS_ASYNC_PUT"}, {"queue", mp->queue_->get_name()}});
  } else if (auto* mg = dynamic_cast<kact::MessIgetSimcall*>(o)) {
    f.update({{"type", "MESS_ASYNC_GET"}, {"queue", mg->queue_->get_name()}});
  } else if (auto* t1 = dynamic_cast<kact::ActivityTestSimcall*>(o)) {
    f.update(comm_test_fields(t1->activity_));
  } else if (auto* w1 = dynamic_cast<kact::ActivityWaitSimcall*>(o)) {
    f.update(comm_wait_fields(w1->activity_, w1->timeout_));
  } else if (auto* ta = dynamic_cast<kact::ActivityTestanySimcall*>(o)) {
    json subs = json::array();
    for (auto const* a : ta->activities_)
      subs.push_back(comm_test_fields(a));
    f.update({{"type", "TESTANY"}, {"subs", subs}, {"ready", ta->indexes_}});
  } else if (auto* wa = dynamic_cast<kact::ActivityWaitanySimcall*>(o)) {
    json subs = json::array();
    for (auto const* a : wa->activities_)
      subs.push_back(comm_wait_fields(a, wa->timeout_));
    f.update({{"type", "WAITANY"}, {"subs", subs}, {"ready", wa->indexes_}});
  } else if (auto* jn = dynamic_cast<kact::ActorJoinSimcall*>(o)) {
    f.update({{"type", "ACTOR_JOIN"}, {"target", jn->other_->get_pid()}, {"timeout", jn->timeout_ > 0}});
  } else if (dynamic_cast<kact::ActorExitSimcall*>(o)) {
    f["type"] = "ACTOR_EXIT";
  } else if (dynamic_cast<kact::ActorSleepSimcall*>(o)) {
    f["type"] = "ACTOR_SLEEP";
  } else if (auto* cr = dynamic_cast<kact::ActorCreateSimcall*>(o)) {
    f.update({{"type", "ACTOR_CREATE"}, {"child", cr->child_}});
  } else if (auto* rd = dynamic_cast<kact::RandomSimcall*>(o)) {
    f.update({{"type", "RANDOM"}, {"min", rd->min_}, {"max", rd->max_}});
  } else {
    f.update({{"type", "?"}, {"class", typeid(*o).name()}});
  }
  return f;
}
static json chk_fields(const mc::Transition* t)
{
  using T = mc::Transition;
  json f  = {{"aid", t->aid_.c_val()}, {"type", T::to_c_str(t->type_)}, {"tc", t->times_considered_}};
  if (auto* m = dynamic_cast<const mc::MutexTransition*>(t)) {
    f.update({{"mutex", m->get_mutex()}, {"owner", m->get_owner().c_val()}});
  } else if (auto* se = dynamic_cast<const mc::SemaphoreTransition*>(t)) {
    f.update({{"sem", se->get_sem()}, {"granted", se->granted_}, {"capacity", se->get_capacity()}});
  } else if (auto* b = dynamic_cast<const mc::BarrierTransition*>(t)) {
    f["barrier"] = b->bar_;
  } else if (auto* cv = dynamic_cast<const mc::CondvarTransition*>(t)) {
    f["cond"] = cv->get_condvar();
    if (t->type_ == T::Type::CONDVAR_ASYNC_LOCK || t->type_ == T::Type::CONDVAR_WAIT)
      f["mutex"] = cv->get_mutex();
    if (t->type_ == T::Type::CONDVAR_WAIT) {
      f["granted"] = cv->granted_;
      f["timeout"] = cv->timeout_;
    }
  } else if (auto* is = dynamic_cast<const mc::CommSendTransition*>(t)) {
    f.update({{"comm", is->get_comm()}, {"mbox", is->get_mailbox()}, {"tag", is->get_tag()}});
  } else if (auto* ir = dynamic_cast<const mc::CommRecvTransition*>(t)) {
    f.update({{"comm", ir->get_comm()}, {"mbox", ir->get_mailbox()}, {"tag", ir->get_tag()}});
  } else if (auto* ip = dynamic_cast<const mc::CommIprobeTransition*>(t)) {
    f.update({{"mbox", ip->get_mailbox()}, {"is_sender", ip->is_sender_side()}, {"tag", ip->get_tag()}});
  } else if (auto* ct = dynamic_cast<const mc::CommTestTransition*>(t)) {
    f.update({{"comm", ct->get_comm()}, {"sender", ct->get_sender().c_val()}, {"receiver", ct->get_receiver().c_val()}, {"mbox", ct->get_mailbox()}});
  } else if (auto* cw = dynamic_cast<const mc::CommWaitTransition*>(t)) {
    f.update({{"timeout", cw->get_timeout()}, {"comm", cw->get_comm()}, {"sender", cw->get_sender().c_val()},
              {"receiver", cw->get_receiver().c_val()}, {"mbox", cw->get_mailbox()}});
  } else if (auto* ta = dynamic_cast<const mc::TestAnyTransition*>(t)) {
    json subs = json::array();
    for (auto const* sub : ta->transitions_)
      subs.push_back(chk_fields(sub));
    f["subs"] = subs;
  } else if (auto* wa = dynamic_cast<const mc::WaitAnyTransition*>(t)) {
    json subs = json::array();
    for (auto const* sub : wa->transitions_)
      subs.push_back(chk_fields(sub));
    f["subs"] = subs;
  } else if (auto* jn = dynamic_cast<const mc::ActorJoinTransition*>(t)) {
    f.update({{"target", jn->get_target().c_val()}, {"timeout", jn->get_timeout()}});
  } else if (auto* cr = dynamic_cast<const mc::ActorCreateTransition*>(t)) {
    f["child"] = cr->get_child().c_val();
  } else if (auto* rd = dynamic_cast<const mc::RandomTransition*>(t)) {
    f.update({{"min", rd->min_}, {"max", rd->max_}});
  }
  return f;
}

/* ---- fingerprint of the kernel synchronisation state ---- */
static long pid_of(const ActorImpl* a)
{
  return a == nullptr ? -1 : a->get_pid();
}
static json fingerprint()
{
  json fp;
  json mut = json::array();
  for (auto const& m : vf::S->mutexes) {
    auto* impl = m->pimpl_;
    json q     = json::array();
    for (auto const& acq : impl->ongoing_acquisitions_)
      q.push_back(json::array({pid_of(acq->issuer_), acq->granted_, acq->recursive_depth_}));
    mut.push_back({{"owner", pid_of(impl->owner_.get())}, {"depth", impl->recursive_depth}, {"q", q}});
  }
  fp["mutex"] = mut;
  json sem    = json::array();
  for (auto const& s : vf::S->sems) {
    auto* impl = s->pimpl_;
    json q     = json::array();
    for (auto const& acq : impl->ongoing_acquisitions_)
      q.push_back(json::array({pid_of(acq->issuer_), acq->granted_}));
    sem.push_back({{"value", impl->value_}, {"q", q}});
  }
  fp["sem"] = sem;
  json cv   = json::array();
  for (auto const& c : vf::S->conds) {
    auto* impl = c->pimpl_;
    json q     = json::array();
    for (auto const& acq : impl->ongoing_acquisitions_)
      q.push_back(json::array({pid_of(acq->issuer_), acq->granted_, acq->mc_timeout_}));
    cv.push_back({{"q", q}});
  }
  fp["cond"] = cv;
  json bar   = json::array();
  for (auto const& b : vf::S->barriers) {
    auto* impl = b->pimpl_;
    json q     = json::array();
    for (auto const& acq : impl->ongoing_acquisitions_)
      q.push_back(json::array({pid_of(acq->issuer_), acq->granted_}));
    bar.push_back({{"expected", impl->expected_actors_}, {"q", q}});
  }
  fp["barrier"] = bar;
  auto comm_json = [](const act::CommImplPtr& c) {
    return json::array({c->get_type() == act::CommImplType::SEND ? "send" : "recv", pid_of(c->src_actor_.get()),
                        pid_of(c->dst_actor_.get()), c->get_state_str(), c->detached_});
  };
  json mb = json::array();
  for (auto const* m : vf::S->mailboxes) {
    auto* impl = m->get_impl();
    json q = json::array(), d = json::array();
    for (auto const& c : impl->comm_queue_)
      q.push_back(comm_json(c));
    for (auto const& c : impl->done_comm_queue_)
      d.push_back(comm_json(c));
    mb.push_back({{"q", q}, {"done", d}, {"receiver", pid_of(impl->permanent_receiver_.get())}});
  }
  fp["mailbox"] = mb;
  json mq       = json::array();
  for (auto const* m : vf::S->mqueues) {
    auto* impl = m->get_impl();
    json q     = json::array();
    for (auto const& c : impl->queue_)
      q.push_back(json::array({c->get_type() == act::MessImplType::PUT ? "put" : "get", pid_of(c->src_actor_.get()),
                               pid_of(c->dst_actor_.get()), c->get_state_str()}));
    mq.push_back({{"q", q}});
  }
  fp["mqueue"] = mq;
  // asynchronous activities held through handles: described by kind, peers and state (never by id)
  json hs = json::object();
  for (auto const& [h, hd] : vf::S->handles) {
    if (hd.act == nullptr)
      continue;
    json d = {{"kind", hd.kind}, {"state", hd.act->get_state_str()}};
    if (auto* comm = dynamic_cast<sg4::Comm*>(hd.act.get()); comm != nullptr && comm->get_impl() != nullptr) {
      auto* ci = static_cast<act::CommImpl*>(comm->get_impl());
      d["src"] = pid_of(ci->src_actor_.get());
      d["dst"] = pid_of(ci->dst_actor_.get());
      d["istate"] = ci->get_state_str();
    }
    hs[std::to_string(h)] = d;
  }
  fp["handles"] = hs;
  json actors   = json::object();
  for (auto const& [name, rec] : registry)
    actors[name] = {{"pc", rec.pc}, {"done", rec.done}, {"obs", rec.ctx ? *rec.ctx->obs : json::array()}};
  fp["actors"] = actors;
  json alive   = json::array();
  for (auto const& [aid, actor] : EngineImpl::get_instance()->get_actor_list())
    alive.push_back(json::array({aid, actor->get_name(), actor->is_suspended(), actor->is_daemon()}));
  fp["alive"] = alive;
  return fp;
}

/* dispatch_depends() may throw (it does on some TestAny transitions): '1', '0' or 'X' + a record of what was thrown */
static json depends_errors = json::array();
static char safe_depends(const mc::Transition* a, const mc::Transition* b)
{
  try {
    return a->dispatch_depends(b) ? '1' : '0';
  } catch (const std::exception& e) {
    if (depends_errors.size() < 5)
      depends_errors.push_back({{"a", mc::Transition::to_c_str(a->type_)}, {"b", mc::Transition::to_c_str(b->type_)},
                                {"a_tc", a->times_considered_}, {"b_tc", b->times_considered_},
                                {"what", std::string(typeid(e).name()) + ": " + e.what()}});
    return 'X';
  }
}

/* ---- dumps ---- */
static std::vector<mc::TransitionPtr> executed;
static int branch       = -1;
static bool want_fields = false; // "fields": also dump the structured content of observers and transitions (C43)

static void out(json& j)
{
  if (branch >= 0)
    j["br"] = branch;
  printf("%s\n", j.dump().c_str());
}

static void dump_state(int step, bool with_fp, bool fp_only = false)
{
  json j          = {{"k", "state"}, {"step", step}};
  if (fp_only) {
    j["fp"] = fingerprint();
    out(j);
    return;
  }
  json actors     = json::array();
  std::vector<mc::TransitionPtr> first;
  for (auto const& [aid, actor] : EngineImpl::get_instance()->get_actor_list()) {
    json a = {{"aid", aid}, {"name", actor->get_name()}, {"call", actor->simcall_.get_cname()}};
    auto* obs = actor->simcall_.observer_;
    a["obs"]  = obs != nullptr;
    if (obs == nullptr) {
      a["visible"] = false;
      a["enabled"] = actor_is_enabled(actor);
      actors.push_back(a);
      first.push_back(nullptr);
      continue;
    }
    a["visible"] = obs->is_visible();
    a["enabled"] = obs->is_enabled();
    int mx       = obs->get_max_consider();
    a["max"]     = mx;
    a["app"]     = obs->to_string();
    json pend    = json::array();
    mc::TransitionPtr t0;
    for (int tc = 0; tc < mx; tc++) {
      obs->prepare(tc);
      Loop l = loopback_full(actor, tc);
      if (tc == 0)
        t0 = l.t;
      json pj = {{"tc", tc}, {"app", obs->to_string()}};
      loop_json(pj, l);
      if (want_fields) {
        pj["appf"] = app_fields(obs);
        if (l.t)
          pj["chkf"] = chk_fields(l.t.get());
      }
      pend.push_back(pj);
    }
    a["pending"] = pend;
    actors.push_back(a);
    first.push_back(t0);
  }
  j["actors"] = actors;
  json dep    = json::array();
  for (size_t i = 0; i < first.size(); i++) {
    std::string row(first.size(), '.');
    for (size_t k = 0; k < first.size(); k++)
      if (first[i] && first[k] && i != k)
        row[k] = safe_depends(first[i].get(), first[k].get());
    dep.push_back(row);
  }
  j["dep"] = dep;
  if (with_fp)
    j["fp"] = fingerprint();
  out(j);
}

/* enabled actors (visible simcall, enabled), by increasing aid */
static std::vector<ActorImpl*> enabled_actors()
{
  std::vector<ActorImpl*> res;
  for (auto const& [aid, actor] : EngineImpl::get_instance()->get_actor_list()) {
    auto* obs = actor->simcall_.observer_;
    if (obs != nullptr && obs->is_visible() && obs->is_enabled() && obs->get_max_consider() > 0)
      res.push_back(actor);
  }
  return res;
}

static bool do_step(int step, const json& s)
{
  long aid = -1;
  int tc   = 0;
  if (s.is_object()) { // {"pick": k, "tc": j}: the (k mod n)-th enabled actor, its (j mod max)-th alternative
    auto en = enabled_actors();
    if (en.empty()) {
      json j = {{"k", "stuck"}, {"step", step}};
      out(j);
      return false;
    }
    if (s.value("lazy", false) && en.size() > 1) {
      // lazy step: requests first, then MUTEX_WAIT (needed to make progress), and only when nothing else can move the other
      // completions (CONDVAR_WAIT, SEM_WAIT, BARRIER_WAIT, comm wait / test): several completions pile up and become
      // enabled in the same state
      std::vector<ActorImpl*> tier[3];
      for (auto* x : en) {
        std::string d = x->simcall_.observer_->to_string();
        bool completion = d.find("WAIT") != std::string::npos || d.find("Wait") != std::string::npos || d.find("Test") != std::string::npos;
        tier[not completion ? 0 : d.rfind("MUTEX_WAIT", 0) == 0 ? 1 : 2].push_back(x);
      }
      en = not tier[0].empty() ? tier[0] : not tier[1].empty() ? tier[1] : tier[2];
    }
    ActorImpl* a = en[s.value("pick", 0) % en.size()];
    aid          = a->get_pid();
    tc           = s.value("tc", 0) % a->simcall_.observer_->get_max_consider();
  } else {
    aid = s.is_array() ? s.at(0).get<long>() : s.get<long>();
    tc  = s.is_array() && s.size() > 1 ? s.at(1).get<int>() : 0;
  }
  auto err = [&](const char* why) {
    json j = {{"k", "error"}, {"step", step}, {"aid", aid}, {"tc", tc}, {"why", why}};
    out(j);
    return false;
  };
  ActorImpl* actor = EngineImpl::get_instance()->get_actor_by_pid(aid);
  if (actor == nullptr)
    return err("no-actor");
  auto* obs = actor->simcall_.observer_;
  if (obs == nullptr)
    return err("no-observer");
  if (not obs->is_visible())
    return err("not-visible");
  if (not obs->is_enabled())
    return err("disabled");
  if (tc < 0 || tc >= obs->get_max_consider())
    return err("bad-tc");
  json j = {{"k", "exec"}, {"step", step}, {"aid", aid}, {"tc", tc}, {"app_before", obs->to_string()}};
  actor->simcall_handle(tc);
  obs = actor->simcall_.observer_;
  if (obs == nullptr)
    return err("no-observer-after");
  Loop l = loopback_full(actor, tc);
  j["app_after"] = obs->to_string();
  loop_json(j, l);
  if (want_fields) {
    j["appf"] = app_fields(obs);
    if (l.t)
      j["chkf"] = chk_fields(l.t.get());
  }
  out(j);
  if (l.t) // else: the checker could not decode it (reported in the exec line); the application goes on
    executed.push_back(l.t);
  execute_actors();
  size_process_clocks(); // actors created by this step
  return true;
}

/* The transition of actor `aid` as the checker would know it after executing it ALONE from the current state (what a sleep
 * set keeps for an explored sibling): executed in a forked copy, its serialized observer comes back through a pipe. */
static mc::TransitionPtr solo_transition(long aid, int tc)
{
  int fds[2];
  if (pipe(fds) != 0)
    return nullptr;
  fflush(stdout);
  pid_t pid = fork();
  if (pid == 0) {
    close(fds[0]);
    ActorImpl* actor = EngineImpl::get_instance()->get_actor_by_pid(aid);
    unsigned size    = 0;
    if (actor != nullptr && actor->simcall_.observer_ != nullptr && actor->simcall_.observer_->is_enabled()) {
      actor->simcall_handle(tc);
      chan->buffer_out_size_ = 0;
      actor->simcall_.observer_->serialize(*chan);
      size = chan->buffer_out_size_;
    }
    if (write(fds[1], &size, sizeof size) < 0 || (size > 0 && write(fds[1], chan->buffer_out_, size) < 0)) { /* nothing */
    }
    _exit(0);
  }
  close(fds[1]);
  unsigned size = 0;
  std::vector<char> buf;
  if (read(fds[0], &size, sizeof size) == static_cast<ssize_t>(sizeof size) && size > 0 && size < 100000) {
    buf.resize(size);
    size_t got = 0;
    while (got < size) {
      ssize_t r = read(fds[0], buf.data() + got, size - got);
      if (r <= 0)
        break;
      got += r;
    }
    if (got != size)
      buf.clear();
  }
  close(fds[0]);
  int st = 0;
  while (waitpid(pid, &st, 0) < 0) {
  }
  if (buf.empty())
    return nullptr;
  chan->buffer_out_size_ = 0;
  chan->buffer_in_size_  = 0;
  chan->buffer_in_next_  = 0;
  chan->reinject(buf.data(), buf.size());
  return mc::TransitionPtr(mc::deserialize_transition(mc::Aid(static_cast<unsigned>(aid)), tc, *chan));
}

static void dump_final(bool hb)
{
  const size_t n = executed.size();
  json j         = {{"k", "final"}, {"n", n}};
  json dep       = json::array();
  for (size_t i = 0; i < n; i++) {
    std::string row(n, '0');
    for (size_t k = 0; k < n; k++)
      if (i != k)
        row[k] = safe_depends(executed[i].get(), executed[k].get());
    dep.push_back(row);
  }
  j["dep"] = dep;
  json aids = json::array();
  for (auto const& t : executed)
    aids.push_back(t->aid_.c_val());
  j["aid"] = aids;
  if (not depends_errors.empty())
    j["depends_errors"] = depends_errors;
  if (hb && depends_errors.empty()) {
    mc::odpor::Execution E;
    for (auto const& t : executed)
      E.push_transition(t);
    json h = json::array(), races = json::array();
    for (unsigned i = 0; i < n; i++) {
      std::string row(n, '0');
      for (unsigned k = 0; k < n; k++)
        if (E.happens_before(i, k))
          row[k] = '1';
      h.push_back(row);
      json r = json::array();
      for (auto e : E.get_racing_events_of(i))
        r.push_back(e);
      races.push_back(r);
    }
    j["hb"]    = h;
    j["races"] = races;
  }
  out(j);
}

static void run_steps(const json& steps, int first_index, const std::string& dump, bool hb)
{
  int step = first_index;
  bool ok  = true;
  for (auto const& s : steps) {
    if (dump == "all")
      dump_state(step, true);
    ok = do_step(step, s);
    if (not ok)
      break;
    step++;
  }
  if (ok && dump != "none")
    dump_state(step, true, dump == "fp");
  dump_final(hb);
}

} // namespace peek

static int run_case(const std::string& text)
{
  json req       = json::parse(text);
  json sc        = req.at("scenario");
  std::string dm = req.value("dump", std::string("all"));
  bool hb        = req.value("hb", false);
  peek::want_fields = req.value("fields", false);
  std::vector<std::string> args = {"mc_peek", "--log=no_loc", "--log=root.thres:warning"};
  if (req.contains("log"))
    for (auto const& l : req["log"])
      args.push_back("--log=" + l.get<std::string>());
  std::vector<char*> argv;
  for (auto& a : args)
    argv.push_back(a.data());
  argv.push_back(nullptr);
  int argc = static_cast<int>(args.size());
  setvbuf(stdout, nullptr, _IOFBF, 1 << 16);
  MC_record_path() = "mc_peek"; // MC_record_replay_is_active(): the s4u layer now issues the simcalls of the model checker
  sg4::Engine e(&argc, argv.data());
  peek::actor_specs = sc.at("actors");
  sc["actors"]      = json::array();
  vf::setup(e, sc, true);
  for (auto const& a : peek::actor_specs) {
    const std::string name = a["name"].get<std::string>();
    const json* spec       = &a;
    sg4::ActorPtr p        = sg4::Actor::create(name, vf::host_by(a["host"]), [name, spec]() { peek::actor_body(name, spec); });
    if (a.value("daemon", false))
      p->daemonize();
  }
  EngineImpl::get_instance()->seal_platform();
  peek::chan = new mc::Channel();
  peek::size_process_clocks();
  peek::execute_actors();
  peek::size_process_clocks();

  const json schedule = req.value("schedule", json::array());
  if (not req.contains("branches")) {
    peek::run_steps(schedule, 0, dm, hb);
  } else {
    // the common prefix, then every branch in a forked copy of this process ("every": the branches are taken at every state of
    // the prefix, not only at its end)
    int step        = 0;
    bool ok         = true;
    int bi          = 0;
    // "every": true = branch at every state of the schedule; a list of step numbers = only there (and after the last step)
    const json every_j = req.value("every", json(false));
    auto branch_here   = [&every_j](int st) {
      if (every_j.is_boolean())
        return every_j.get<bool>();
      return std::find(every_j.begin(), every_j.end(), json(st)) != every_j.end();
    };
    size_t maxbr    = req.value("maxbranches", 60);
    size_t total    = 0;
    const bool related_first_only = req.value("related_only_before_end", false);
    bool last_state               = false;
    auto branch_out = [&](int at) {
      json branches = req["branches"];
      if (branches.is_string() && branches.get<std::string>() == "pairs") {
        // every ordered pair (a, b) of distinct enabled actors, every alternative of each: a then b
        // Both orders of a pair are always taken together.  Under the cap ("maxbranches") pairs whose pending transitions are of
        // the same family (mutex+condvar, semaphore, barrier, comm) go first, and a pair of pending simcalls that was already
        // branched on in an earlier state of this run (same two actors, same descriptions) is not taken again.
        branches = json::array();
        auto en  = peek::enabled_actors();
        auto family = [](ActorImpl* x) {
          std::string s = x->simcall_.observer_->to_string();
          if (s.rfind("MUTEX", 0) == 0 || s.rfind("CONDVAR", 0) == 0)
            return 1;
          if (s.rfind("SEM", 0) == 0)
            return 2;
          if (s.rfind("BARRIER", 0) == 0)
            return 3;
          if (s.rfind("Comm", 0) == 0 || s.rfind("Iprobe", 0) == 0 || s.rfind("TestAny", 0) == 0 || s.rfind("WaitAny", 0) == 0)
            return 4;
          return 0;
        };
        static std::set<std::string> seen_pairs;
        for (int pass = 0; pass < (related_first_only && not last_state ? 1 : 2); pass++)
          for (size_t i = 0; i < en.size(); i++)
            for (size_t k = i + 1; k < en.size(); k++) {
              ActorImpl* a = en[i];
              ActorImpl* b = en[k];
              bool related = family(a) != 0 && family(a) == family(b);
              if (related != (pass == 0))
                continue;
              std::string key = std::to_string(a->get_pid()) + ":" + a->simcall_.observer_->to_string() + "|" +
                                std::to_string(b->get_pid()) + ":" + b->simcall_.observer_->to_string();
              if (seen_pairs.count(key) > 0)
                continue;
              size_t need = 2 * a->simcall_.observer_->get_max_consider() * b->simcall_.observer_->get_max_consider();
              if (total + branches.size() + need > maxbr)
                continue;
              seen_pairs.insert(key);
              for (int ta = 0; ta < a->simcall_.observer_->get_max_consider(); ta++)
                for (int tb = 0; tb < b->simcall_.observer_->get_max_consider(); tb++) {
                  branches.push_back(json::array({json::array({a->get_pid(), ta}), json::array({b->get_pid(), tb})}));
                  branches.push_back(json::array({json::array({b->get_pid(), tb}), json::array({a->get_pid(), ta})}));
                }
            }
        if (branches.empty())
          return;
      }
      total += branches.size();
      std::map<std::pair<long, int>, mc::TransitionPtr> solos; // every first step executed alone from this state
      if (req.value("solo", false))
        for (auto const& br : branches)
          if (br.size() == 2 && br[0].is_array() && br[1].is_array()) {
            auto key = std::make_pair(br[1][0].get<long>(), br[1][1].get<int>());
            if (solos.find(key) == solos.end())
              solos[key] = peek::solo_transition(key.first, key.second);
          }
      json bl = {{"k", "branches"}, {"at", at}, {"first", bi}, {"list", branches}};
      printf("%s\n", bl.dump().c_str());
      for (auto const& br : branches) {
        fflush(stdout);
        pid_t pid = fork();
        if (pid == 0) {
          peek::branch = bi;
          if (req.value("solo", false) && br.size() == 2 && br[0].is_array() && br[1].is_array()) {
            // D_solo: a executed from here against b executed ALONE from here
            mc::TransitionPtr tb = solos[std::make_pair(br[1][0].get<long>(), br[1][1].get<int>())];
            size_t before        = peek::executed.size();
            bool ok_a            = peek::do_step(at, br[0]);
            json sj              = {{"k", "solo"}, {"a", br[0]}, {"b", br[1]}, {"b_solo", tb != nullptr}, {"a_done", ok_a}};
            if (ok_a && tb != nullptr && peek::executed.size() == before + 1) {
              sj["dep_ab"] = peek::safe_depends(peek::executed.back().get(), tb.get()) == '1';
              sj["dep_ba"] = peek::safe_depends(tb.get(), peek::executed.back().get()) == '1';
              sj["chk_a"]  = peek::executed.back()->to_string(true);
              sj["chk_b"]  = tb->to_string(true);
            }
            peek::out(sj);
            if (ok_a)
              peek::run_steps(json::array({br[1]}), at + 1, "fp", hb);
            else
              peek::dump_final(hb);
          } else
            peek::run_steps(br, at, "fp", hb);
          json d = {{"k", "branch_done"}};
          peek::out(d);
          fflush(stdout);
          _exit(0);
        }
        int st = 0;
        while (waitpid(pid, &st, 0) < 0) {
        }
        if (not WIFEXITED(st) || WEXITSTATUS(st) != 0) {
          json d = {{"k", "branch_crash"}, {"br", bi}, {"status", st}};
          printf("%s\n", d.dump().c_str());
        }
        bi++;
      }
    };
    for (auto const& s : schedule) {
      if (dm == "all")
        peek::dump_state(step, true);
      if (branch_here(step))
        branch_out(step);
      ok = peek::do_step(step, s);
      if (not ok)
        break;
      step++;
    }
    if (ok) {
      peek::dump_state(step, true);
      last_state = true;
      branch_out(step);
    }
  }
  printf("{\"k\":\"done\"}\n");
  fflush(stdout);
  return 0;
}

int main(int argc, char** argv)
{
  return vf_main(argc, argv, run_case);
}
