/* s4u_core.hpp: the S4U scenario interpreter shared by s4u_interp (plain runs, simgrid-mc application) and mc_peek.
 *
 * A scenario is a JSON object (see /verif/notes/S4U_INTERP.md for the full format):
 *   cfg       : ["name:value", ...]                      applied before the platform exists
 *   plugins   : ["host_energy","link_energy","host_load","link_load","file_system"]
 *   platform  : {"hosts":[...],"links":[...],"routes":[...]} | {"xml": "<file>"}
 *   objects   : {"mutex":[{"recursive":bool}],"sem":[capacity],"cond":[mutex index],"barrier":[count],"mailbox":n,"mqueue":n}
 *   actors    : [{"name","host","ops":[[op,args...],...],"daemon","kill_time","auto_restart","on_exit":k}]
 *   templates : [{"ops":[...],"daemon",...}]            bodies for the "spawn" operation
 *   sample    : {"load":[hosts],"usage":[links],"energy":[hosts],"link_energy":[links],"speed":[hosts],"bw":[links],
 *                "remaining":bool,"lmm":bool}            sampled at every time advance
 *   quiet     : ["adv","act","actor","onoff"]             record kinds not to print
 *   horizon   : max simulated date given to Engine::run_until (default: none)
 *
 * Output: one JSON object per line; all dates are hex floats ("%a").  No oracle here.
 */
#pragma once
#include "simgrid/kernel/ProfileBuilder.hpp"
#include "simgrid/plugins/energy.h"
#include "simgrid/plugins/file_system.h"
#include "simgrid/plugins/load.h"
#include "simgrid/s4u.hpp"
#include "simgrid/simix.hpp"
#include "src/kernel/activity/CommImpl.hpp"
#include "src/kernel/actor/ActorImpl.hpp"
#include "src/mc/mc.h"
#include "xbt/log.h"

#include <atomic>
#include <functional>
#include <map>
#include <mutex>
#include <nlohmann/json.hpp>
#include <string>
#include <unistd.h>
#include <vector>

namespace sg4 = simgrid::s4u;
using json    = nlohmann::json;

namespace vf {

struct Payload {
  unsigned magic = 0xC0FFEE11u;
  std::string sender;
  int seq     = 0;
  double size = 0;
  int tag     = 0;
  unsigned check() const { return magic ^ static_cast<unsigned>(seq * 2654435761u) ^ static_cast<unsigned>(tag * 40503u); }
  unsigned chk = 0;
};

struct Handle {
  sg4::ActivityPtr act;
  std::string kind; // exec, comm_send, comm_recv, io, mess_put, mess_get
  void* slot = nullptr; // receive slot (comm_recv, mess_get)
  bool reported = false;
};

struct State {
  json scenario;
  bool mc_mode = false; // no log, observations collected, OUTCOME line at the end
  std::set<std::string> quiet;
  std::vector<sg4::MutexPtr> mutexes;
  std::vector<sg4::SemaphorePtr> sems;
  std::vector<sg4::ConditionVariablePtr> conds;
  std::vector<int> cond_mutex;
  std::vector<sg4::BarrierPtr> barriers;
  std::vector<sg4::Mailbox*> mailboxes;
  std::vector<sg4::MessageQueue*> mqueues;
  std::map<int, Handle> handles;
  std::mutex lock; // protects handles, counters and the output under contexts/nthreads>1
  std::atomic<long> seq{0};
  std::map<std::string, int> spawn_count;
  // mc mode
  std::map<std::string, json> observations;
  int created = 0;
  int done    = 0;
};

static State* S = nullptr;

static inline std::string hx(double d)
{
  char buf[64];
  snprintf(buf, sizeof buf, "%a", d);
  return buf;
}
static inline double now()
{
  return sg4::Engine::get_clock();
}

static inline void emit(json& j)
{
  if (S->mc_mode)
    return;
  std::lock_guard<std::mutex> g(S->lock);
  j["n"]        = S->seq++;
  std::string s = j.dump();
  s.push_back('\n');
  fwrite(s.data(), 1, s.size(), stdout);
}
static inline bool is_quiet(const char* kind)
{
  return S->quiet.count(kind) > 0;
}

static sg4::Host* host_by(const json& j)
{
  return sg4::Host::by_name(j.get<std::string>());
}

static sg4::Disk* disk_by(const std::string& name)
{
  for (auto* h : sg4::Engine::get_instance()->get_all_hosts())
    for (auto* d : h->get_disks())
      if (d->get_name() == name)
        return d;
  fprintf(stderr, "no such disk %s\n", name.c_str());
  _exit(64);
}

/* ------------------------------------------------------------------------------------------------ platform */
static simgrid::kernel::profile::Profile* make_profile(const std::string& name, const json& p)
{
  // {"points":[[date,value],...],"period":-1}
  std::string txt;
  for (auto const& pt : p["points"]) {
    char buf[128];
    snprintf(buf, sizeof buf, "%.17g %.17g\n", pt[0].get<double>(), pt[1].get<double>());
    txt += buf;
  }
  return simgrid::kernel::profile::ProfileBuilder::from_string(name, txt, p.value("period", -1.0));
}

static void build_platform(sg4::Engine& e, const json& p)
{
  if (p.contains("xml")) {
    e.load_platform(p["xml"].get<std::string>());
    return;
  }
  auto* zone = e.get_netzone_root();
  for (auto const& h : p["hosts"]) {
    std::vector<double> speeds = h["speed"].is_array() ? h["speed"].get<std::vector<double>>()
                                                        : std::vector<double>{h["speed"].get<double>()};
    auto* host = zone->add_host(h["name"].get<std::string>(), speeds);
    if (h.contains("cores"))
      host->set_core_count(h["cores"].get<int>());
    if (h.contains("props"))
      for (auto const& [k, v] : h["props"].items())
        host->set_property(k, v.get<std::string>());
    if (h.contains("speed_profile"))
      host->set_speed_profile(make_profile(h["name"].get<std::string>() + "_speed", h["speed_profile"]));
    if (h.contains("state_profile"))
      host->set_state_profile(make_profile(h["name"].get<std::string>() + "_state", h["state_profile"]));
    if (h.contains("disks"))
      for (auto const& d : h["disks"]) {
        auto* disk = host->add_disk(d["name"].get<std::string>(), d["read_bw"].get<double>(), d["write_bw"].get<double>());
        if (d.contains("props"))
          for (auto const& [k, v] : d["props"].items())
            disk->set_property(k, v.get<std::string>());
        disk->seal();
      }
    host->seal();
    if (h.contains("pstate")) // after seal(), like the XML loader does (the CPU constraint must exist)
      host->set_pstate(h["pstate"].get<int>());
  }
  if (p.contains("links"))
    for (auto const& l : p["links"]) {
      std::string pol = l.value("policy", "SHARED");
      sg4::Link* link;
      if (pol == "SPLITDUPLEX") {
        auto* sd = zone->add_split_duplex_link(l["name"].get<std::string>(), l["bw"].get<double>());
        sd->set_latency(l.value("lat", 0.0));
        sd->seal();
        continue;
      }
      link = zone->add_link(l["name"].get<std::string>(), l["bw"].get<double>());
      link->set_latency(l.value("lat", 0.0));
      if (pol == "FATPIPE")
        link->set_sharing_policy(sg4::Link::SharingPolicy::FATPIPE);
      if (l.contains("props"))
        for (auto const& [k, v] : l["props"].items())
          link->set_property(k, v.get<std::string>());
      if (l.contains("limit"))
        link->set_concurrency_limit(l["limit"].get<int>());
      if (l.contains("bw_profile"))
        link->set_bandwidth_profile(make_profile(l["name"].get<std::string>() + "_bw", l["bw_profile"]));
      if (l.contains("lat_profile"))
        link->set_latency_profile(make_profile(l["name"].get<std::string>() + "_lat", l["lat_profile"]));
      if (l.contains("state_profile"))
        link->set_state_profile(make_profile(l["name"].get<std::string>() + "_state", l["state_profile"]));
      link->seal();
    }
  if (p.contains("routes"))
    for (auto const& r : p["routes"]) {
      std::vector<sg4::LinkInRoute> links;
      for (auto const& ln : r["links"]) {
        std::string name = ln.get<std::string>();
        auto pos         = name.find(':');
        if (pos != std::string::npos) {
          std::string dir = name.substr(pos + 1);
          auto* sd        = sg4::SplitDuplexLink::by_name(name.substr(0, pos));
          links.emplace_back(sd, dir == "UP" ? sg4::LinkInRoute::Direction::UP : sg4::LinkInRoute::Direction::DOWN);
        } else
          links.emplace_back(sg4::Link::by_name(name));
      }
      zone->add_route(host_by(r["src"]), host_by(r["dst"]), links, r.value("sym", true));
    }
  zone->seal();
}

/* ------------------------------------------------------------------------------------------------ actors */
struct Ctx {
  std::string name;
  const json* ops;
  int nput = 0;
  std::vector<bool> trys; // results of this actor's try_lock operations, in order
  std::shared_ptr<json> obs = std::make_shared<json>(json::array()); // outlives the body: read by on_exit
};

static void log_ret(Ctx& c, int idx, const json& r)
{
  if (S->mc_mode) {
    c.obs->push_back(r);
    return;
  }
  json j = {{"k", "ret"}, {"a", c.name}, {"i", idx}, {"t", hx(now())}, {"r", r}};
  emit(j);
}
static void log_exc(Ctx& c, int idx, const std::string& what)
{
  if (S->mc_mode) {
    c.obs->push_back("!" + what);
    return;
  }
  json j = {{"k", "ret"}, {"a", c.name}, {"i", idx}, {"t", hx(now())}, {"exc", what}};
  emit(j);
}

static json payload_json(Payload* p)
{
  if (p == nullptr)
    return nullptr;
  json r = {{"from", p->sender}, {"seq", p->seq}, {"size", p->size}, {"tag", p->tag}, {"intact", p->chk == p->check() && p->magic == 0xC0FFEE11u}};
  return r;
}

static Payload* make_payload(Ctx& c, double size, int tag)
{
  auto* p   = new Payload;
  p->sender = c.name;
  p->seq    = c.nput++;
  p->size   = size;
  p->tag    = tag;
  p->chk    = p->check();
  return p;
}

static Handle& handle(int h)
{
  std::lock_guard<std::mutex> g(S->lock);
  return S->handles[h];
}
static bool has_handle(int h)
{
  std::lock_guard<std::mutex> g(S->lock);
  return S->handles.count(h) > 0 && S->handles[h].act != nullptr;
}

static void run_actor(const std::string& name, const json* spec);

/* Extension points, so that several people can add operations and records without editing this file: a header
 * drivers/s4u_ext_<tag>.hpp (tags: comm, time, model, fault, wf, misc, mc; included at the end of this file when present)
 * registers, from a static initialiser,
 *   - operations: bool f(Ctx&, int op_index, const json& op, json& result)  (return false when the op name is not yours;
 *     exceptions propagate to the interpreter, which logs them as the outcome of the operation)
 *   - set-up functions, run once after the platform and the objects exist and before the actors are created (connect
 *     signals there; use emit() to print records). */
struct Ctx;
using ExtOp = std::function<bool(Ctx&, int, const json&, json&)>;
static std::vector<ExtOp>& ext_ops()
{
  static std::vector<ExtOp> v;
  return v;
}
static std::vector<std::function<void()>>& ext_setups()
{
  static std::vector<std::function<void()>> v;
  return v;
}
struct ExtRegister {
  ExtRegister(ExtOp op, std::function<void()> setup = nullptr)
  {
    if (op)
      ext_ops().push_back(op);
    if (setup)
      ext_setups().push_back(setup);
  }
};

static sg4::ActorPtr start_actor(const std::string& name, sg4::Host* host, const json* spec)
{
  {
    std::lock_guard<std::mutex> g(S->lock);
    S->created++;
  }
  sg4::ActorPtr a = sg4::Actor::create(name, host, [name, spec]() { run_actor(name, spec); });
  if (spec->value("daemon", false))
    a->daemonize();
  if (spec->contains("kill_time") && (*spec)["kill_time"].get<double>() >= 0)
    a->set_kill_time((*spec)["kill_time"].get<double>());
  if (spec->value("auto_restart", false))
    a->set_auto_restart(true);
  return a;
}

/* result of a finished activity, by kind */
static json finished_result(Handle& h)
{
  if (h.kind == "comm_recv" || h.kind == "mess_get") {
    auto* p = static_cast<Payload*>(*static_cast<void**>(h.slot));
    json r  = payload_json(p);
    if (not h.reported) {
      h.reported = true;
      delete p;
      *static_cast<void**>(h.slot) = nullptr;
    }
    return r;
  }
  return "done";
}

static bool tag_match_send(void* mine, void* other, simgrid::kernel::activity::CommImpl*)
{
  // mine: int* tag of the send; other: int* tag wanted by the receive (-1 = any)
  int want = *static_cast<int*>(other);
  return want < 0 || want == *static_cast<int*>(mine);
}
static bool tag_match_recv(void* mine, void* other, simgrid::kernel::activity::CommImpl*)
{
  int want = *static_cast<int*>(mine);
  return want < 0 || want == *static_cast<int*>(other);
}

static sg4::ExecPtr make_exec(const json& op)
{
  json opts = op.size() > 2 && op[2].is_object() ? op[2] : json::object();
  sg4::ExecPtr ex;
  if (op[1].is_array()) { // ptask: [hosts], then opts.flops / opts.bytes
    std::vector<sg4::Host*> hosts;
    for (auto const& h : op[1])
      hosts.push_back(host_by(h));
    ex = sg4::this_actor::exec_init(hosts, opts["flops"].get<std::vector<double>>(), opts["bytes"].get<std::vector<double>>());
  } else {
    ex = sg4::this_actor::exec_init(op[1].get<double>());
    if (opts.contains("host"))
      ex->set_host(host_by(opts["host"]));
    if (opts.contains("threads"))
      ex->set_thread_count(opts["threads"].get<int>());
  }
  if (opts.contains("bound"))
    ex->set_bound(opts["bound"].get<double>());
  if (opts.contains("prio"))
    ex->set_priority(opts["prio"].get<double>());
  return ex;
}

static json do_op(Ctx& c, int idx, const json& op)
{
  const std::string o = op[0].get<std::string>();
  auto I              = [&op](int k) { return op[k].get<int>(); };
  auto D              = [&op](int k) { return op[k].get<double>(); };
  auto OPT            = [&op](size_t k) { return op.size() > k && op[k].is_object() ? op[k] : json::object(); };
  /* ---- time */
  if (o == "sleep") {
    sg4::this_actor::sleep_for(D(1));
    return nullptr;
  }
  if (o == "sleep_until") {
    sg4::this_actor::sleep_until(D(1));
    return nullptr;
  }
  if (o == "yield") {
    sg4::this_actor::yield();
    return nullptr;
  }
  if (o == "now")
    return hx(now());
  if (o == "exec") {
    auto ex   = make_exec(op);
    json opts = OPT(2);
    ex->set_name(c.name + "#" + std::to_string(idx));
    ex->start();
    if (opts.contains("timeout"))
      ex->wait_for(opts["timeout"].get<double>());
    else
      ex->wait();
    return json{{"start", hx(ex->get_start_time())}, {"finish", hx(ex->get_finish_time())}};
  }
  if (o == "exec_async") { // ["exec_async", flops|[hosts], opts, h]
    auto ex = make_exec(op);
    ex->set_name(c.name + "#" + std::to_string(idx));
    json opts = OPT(2);
    if (not opts.value("nostart", false))
      ex->start();
    Handle& h = handle(I(3));
    h.act     = ex;
    h.kind    = "exec";
    return nullptr;
  }
  /* ---- mutex */
  if (o == "lock") {
    S->mutexes[I(1)]->lock();
    return nullptr;
  }
  if (o == "try_lock") {
    bool ok = S->mutexes[I(1)]->try_lock();
    c.trys.push_back(ok);
    return ok;
  }
  if (o == "unlock_if") { // ["unlock_if", m, j]: unlock iff this actor's j-th try_lock succeeded (else "skipped")
    if (static_cast<size_t>(I(2)) < c.trys.size() && c.trys[I(2)]) {
      S->mutexes[I(1)]->unlock();
      return nullptr;
    }
    return "skipped";
  }
  if (o == "unlock") {
    S->mutexes[I(1)]->unlock();
    return nullptr;
  }
  if (o == "owner") {
    auto m    = S->mutexes[I(1)];
    auto name = simgrid::kernel::actor::simcall_answered([m]() -> std::string {
      auto* a = m->get_owner();
      return a ? a->get_name() : "";
    });
    return name;
  }
  /* ---- semaphore */
  if (o == "acquire") {
    S->sems[I(1)]->acquire();
    return nullptr;
  }
  if (o == "acquire_timeout")
    return S->sems[I(1)]->acquire_timeout(D(2));
  if (o == "release") {
    S->sems[I(1)]->release();
    return nullptr;
  }
  if (o == "capacity") {
    auto s = S->sems[I(1)];
    return simgrid::kernel::actor::simcall_answered([s]() { return s->get_capacity(); });
  }
  if (o == "would_block") {
    auto s = S->sems[I(1)];
    return simgrid::kernel::actor::simcall_answered([s]() { return s->would_block(); });
  }
  /* ---- condition variable (the mutex of cond c is objects.cond[c]) */
  if (o == "cv_wait") { // ["cv_wait", c] with the mutex of the scenario, or ["cv_wait", c, m] with mutex m
    int m = op.size() > 2 ? I(2) : S->cond_mutex[I(1)];
    S->conds[I(1)]->wait(S->mutexes[m]);
    return nullptr;
  }
  if (o == "cv_wait_for") { // ["cv_wait_for", c, t] or ["cv_wait_for", c, t, m]
    int m = op.size() > 3 ? I(3) : S->cond_mutex[I(1)];
    return S->conds[I(1)]->wait_for(S->mutexes[m], D(2)) == std::cv_status::timeout;
  }
  if (o == "cv_wait_until")
    return S->conds[I(1)]->wait_until(S->mutexes[S->cond_mutex[I(1)]], D(2)) == std::cv_status::timeout;
  if (o == "notify_one") {
    S->conds[I(1)]->notify_one();
    return nullptr;
  }
  if (o == "notify_all") {
    S->conds[I(1)]->notify_all();
    return nullptr;
  }
  if (o == "barrier")
    return S->barriers[I(1)]->wait();
  /* ---- mailbox: ["put", mb, size, opts{rate,timeout}] */
  if (o == "put" || o == "put_async" || o == "put_detach" || o == "put_init") {
    json opts  = OPT(3);
    auto* p    = make_payload(c, D(2), 0);
    auto comm  = S->mailboxes[I(1)]->put_init(p, static_cast<uint64_t>(D(2)));
    comm->set_name(c.name + "#" + std::to_string(idx));
    if (opts.contains("rate"))
      comm->set_rate(opts["rate"].get<double>());
    json id = {{"from", p->sender}, {"seq", p->seq}};
    if (o == "put") {
      try {
        comm->start();
        if (opts.contains("timeout"))
          comm->wait_for(opts["timeout"].get<double>());
        else
          comm->wait();
      } catch (...) {
        // the payload was not delivered: we still own it. (A delivered payload belongs to the receiver.)
        // we cannot know for sure here, so it is leaked on purpose.
        throw;
      }
      return id;
    }
    if (o == "put_detach") {
      std::string who = c.name;
      comm->detach([who, id](void* data) {
        json j = {{"k", "detach_clean"}, {"a", who}, {"t", hx(now())}, {"payload", id}};
        emit(j);
        delete static_cast<Payload*>(data);
      });
      return id;
    }
    if (o == "put_async")
      comm->start();
    Handle& h = handle(I(4)); // ["put_async"|"put_init", mb, size, opts, h]
    h.act     = comm;
    h.kind    = "comm_send";
    return id;
  }
  if (o == "get") { // ["get", mb, opts{timeout, rate}]
    json opts = OPT(2);
    Payload* p;
    if (opts.contains("timeout"))
      p = S->mailboxes[I(1)]->get<Payload>(opts["timeout"].get<double>());
    else
      p = S->mailboxes[I(1)]->get<Payload>();
    json r = payload_json(p);
    delete p;
    return r;
  }
  if (o == "get_async") { // ["get_async", mb, h, opts]
    json opts  = OPT(3);
    auto* slot = new void*(nullptr);
    auto comm  = S->mailboxes[I(1)]->get_init()->set_dst_data(slot, sizeof(void*));
    comm->set_name(c.name + "#" + std::to_string(idx));
    if (opts.contains("rate"))
      comm->set_rate(opts["rate"].get<double>());
    comm->start();
    Handle& h = handle(I(2));
    h.act     = comm;
    h.kind    = "comm_recv";
    h.slot    = slot;
    return nullptr;
  }
  if (o == "tsend") { // ["tsend", mb, size, tag]  blocking send carrying a match tag (the way SMPI uses mailboxes)
    auto* p   = make_payload(c, D(2), I(3));
    int* tag  = new int(I(3));
    json id   = {{"from", p->sender}, {"seq", p->seq}, {"tag", p->tag}};
    sg4::Comm::send(simgrid::kernel::actor::ActorImpl::self(), S->mailboxes[I(1)], D(2), -1.0, p, sizeof(void*), tag_match_send,
                    nullptr, tag, -1.0);
    return id;
  }
  if (o == "trecv") { // ["trecv", mb, tag|-1]
    void* slot  = nullptr;
    size_t size = sizeof(void*);
    int* tag    = new int(I(2));
    sg4::Comm::recv(simgrid::kernel::actor::ActorImpl::self(), S->mailboxes[I(1)], &slot, &size, tag_match_recv, nullptr, tag,
                    -1.0, -1.0);
    auto* p = static_cast<Payload*>(slot);
    json r  = payload_json(p);
    delete p;
    return r;
  }
  if (o == "set_receiver") {
    S->mailboxes[I(1)]->set_receiver(op.size() > 2 && op[2].get<bool>() == false ? nullptr : sg4::Actor::self());
    return nullptr;
  }
  if (o == "mb_ready") {
    auto* mb = S->mailboxes[I(1)];
    return json{{"ready", mb->ready()}, {"listen", mb->listen()}, {"empty", mb->empty()}};
  }
  /* ---- message queues */
  if (o == "mq_put" || o == "mq_put_async") {
    auto* p = make_payload(c, 0, 0);
    json id = {{"from", p->sender}, {"seq", p->seq}};
    json opts = OPT(o == "mq_put" ? 2 : 3);
    if (o == "mq_put") {
      if (opts.contains("timeout"))
        S->mqueues[I(1)]->put(p, opts["timeout"].get<double>());
      else
        S->mqueues[I(1)]->put(p);
      return id;
    }
    auto m    = S->mqueues[I(1)]->put_async(p);
    Handle& h = handle(I(2));
    h.act     = m;
    h.kind    = "mess_put";
    return id;
  }
  if (o == "mq_get") {
    json opts = OPT(2);
    Payload* p;
    if (opts.contains("timeout"))
      p = S->mqueues[I(1)]->get<Payload>(opts["timeout"].get<double>());
    else
      p = S->mqueues[I(1)]->get<Payload>();
    json r = payload_json(p);
    delete p;
    return r;
  }
  if (o == "mq_get_async") {
    auto* slot = new void*(nullptr);
    auto m     = S->mqueues[I(1)]->get_async<void>(reinterpret_cast<void**>(slot));
    Handle& h  = handle(I(2));
    h.act      = m;
    h.kind     = "mess_get";
    h.slot     = slot;
    return nullptr;
  }
  /* ---- I/O: ["io", disk, size, "read"|"write", opts] */
  if (o == "io" || o == "io_async") {
    auto* disk = disk_by(op[1].get<std::string>());
    auto io    = disk->io_init(static_cast<sg_size_t>(D(2)),
                            op[3].get<std::string>() == "read" ? sg4::Io::OpType::READ : sg4::Io::OpType::WRITE);
    io->set_name(c.name + "#" + std::to_string(idx));
    json opts = OPT(o == "io" ? 4 : 5);
    if (opts.contains("prio"))
      io->set_priority(opts["prio"].get<double>());
    io->start();
    if (o == "io") {
      if (opts.contains("timeout"))
        io->wait_for(opts["timeout"].get<double>());
      else
        io->wait();
      json r;
      r["performed"] = static_cast<double>(io->get_performed_ioops());
      return r;
    }
    Handle& h = handle(I(4));
    h.act     = io;
    h.kind    = "io";
    return nullptr;
  }
  /* ---- generic activity operations on handles */
  if (o == "start") {
    handle(I(1)).act->start();
    return nullptr;
  }
  if (o == "wait") { // ["wait", h, opts{timeout, until, or_cancel}]
    json opts = OPT(2);
    Handle& h = handle(I(1));
    if (opts.contains("timeout")) {
      if (opts.value("or_cancel", false))
        h.act->wait_for_or_cancel(opts["timeout"].get<double>());
      else
        h.act->wait_for(opts["timeout"].get<double>());
    } else if (opts.contains("until"))
      h.act->wait_until(opts["until"].get<double>());
    else
      h.act->wait();
    return finished_result(h);
  }
  if (o == "test") {
    Handle& h = handle(I(1));
    if (h.act->test())
      return finished_result(h);
    return false;
  }
  if (o == "cancel") {
    handle(I(1)).act->cancel();
    return nullptr;
  }
  if (o == "suspend_act") {
    handle(I(1)).act->suspend();
    return nullptr;
  }
  if (o == "resume_act") {
    handle(I(1)).act->resume();
    return nullptr;
  }
  if (o == "act_info") {
    Handle& h = handle(I(1));
    auto act  = h.act;
    return simgrid::kernel::actor::simcall_answered([act]() {
      return json{{"state", act->get_state_str()}, {"remaining", hx(act->get_remaining())}, {"start", hx(act->get_start_time())},
                  {"finish", hx(act->get_finish_time())}};
    });
  }
  if (o == "wait_any" || o == "wait_all" || o == "test_any") { // ["wait_any", [h...], opts{timeout}]
    sg4::ActivitySet set;
    std::map<sg4::Activity*, int> who;
    for (auto const& hh : op[1]) {
      Handle& h = handle(hh.get<int>());
      set.push(h.act);
      who[h.act.get()] = hh.get<int>();
    }
    json opts = OPT(2);
    if (o == "wait_all") {
      if (opts.contains("timeout"))
        set.wait_all_for(opts["timeout"].get<double>());
      else
        set.wait_all();
      return nullptr;
    }
    sg4::ActivityPtr a;
    try {
      if (o == "test_any")
        a = set.test_any();
      else if (opts.contains("timeout"))
        a = set.wait_any_for(opts["timeout"].get<double>());
      else
        a = set.wait_any();
    } catch (const simgrid::Exception&) {
      auto f = set.get_failed_activity();
      if (f != nullptr) {
        json j = {{"k", "failed_in_set"}, {"a", c.name}, {"i", idx}, {"h", who[f.get()]}};
        emit(j);
      }
      throw;
    }
    if (a == nullptr)
      return -1;
    int hh = who[a.get()];
    return json{{"h", hh}, {"r", finished_result(handle(hh))}};
  }
  if (o == "add_successor") { // ["add_successor", h_pred, h_succ]
    handle(I(1)).act->add_successor(handle(I(2)).act);
    return nullptr;
  }
  if (o == "assign") { // ["assign", h, host | [src,dst]]  (workflow activities created with nostart)
    Handle& h = handle(I(1));
    if (h.kind == "exec")
      boost::static_pointer_cast<sg4::Exec>(h.act)->set_host(host_by(op[2]));
    return nullptr;
  }
  /* ---- actors */
  if (o == "spawn") { // ["spawn", template index, host?]
    const json* tmpl = &S->scenario["templates"][I(1)];
    std::string child;
    {
      std::lock_guard<std::mutex> g(S->lock);
      child = c.name + "." + std::to_string(S->spawn_count[c.name]++);
    }
    sg4::Host* host = op.size() > 2 && op[2].is_string() ? host_by(op[2]) : sg4::this_actor::get_host();
    start_actor(child, host, tmpl);
    return child;
  }
  auto find_actor = [](const std::string& name) -> sg4::ActorPtr {
    for (auto const& a : sg4::Engine::get_instance()->get_all_actors())
      if (a->get_name() == name)
        return a;
    return nullptr;
  };
  if (o == "kill" || o == "join" || o == "suspend" || o == "resume" || o == "is_suspended" || o == "migrate") {
    sg4::ActorPtr a = find_actor(op[1].get<std::string>());
    if (a == nullptr)
      return "no-such-actor";
    if (o == "kill")
      a->kill();
    else if (o == "join") {
      if (op.size() > 2 && op[2].is_number())
        a->join(D(2));
      else
        a->join();
    } else if (o == "suspend")
      a->suspend();
    else if (o == "resume")
      a->resume();
    else if (o == "migrate")
      a->set_host(host_by(op[2]));
    else
      return a->is_suspended();
    return nullptr;
  }
  if (o == "kill_all") {
    sg4::Actor::kill_all();
    return nullptr;
  }
  if (o == "suspend_self") {
    sg4::this_actor::suspend();
    return nullptr;
  }
  if (o == "daemonize") {
    sg4::Actor::self()->daemonize();
    return nullptr;
  }
  if (o == "set_kill_time") {
    sg4::Actor::self()->set_kill_time(D(1));
    return nullptr;
  }
  if (o == "exit") {
    sg4::this_actor::exit();
  }
  if (o == "set_host") {
    sg4::this_actor::set_host(host_by(op[1]));
    return nullptr;
  }
  /* ---- resources */
  if (o == "turn_off" || o == "turn_on") {
    bool on = o == "turn_on";
    if (op[1].get<std::string>() == "host") {
      auto* h = host_by(op[2]);
      on ? h->turn_on() : h->turn_off();
    } else {
      auto* l = sg4::Link::by_name(op[2].get<std::string>());
      on ? l->turn_on() : l->turn_off();
    }
    return nullptr;
  }
  if (o == "set_pstate") {
    host_by(op[1])->set_pstate(I(2));
    return nullptr;
  }
  if (o == "set_bw") {
    sg4::Link::by_name(op[1].get<std::string>())->set_bandwidth(D(2));
    return nullptr;
  }
  if (o == "set_lat") {
    sg4::Link::by_name(op[1].get<std::string>())->set_latency(D(2));
    return nullptr;
  }
  if (o == "host_info") {
    auto* h = host_by(op[1]);
    return simgrid::kernel::actor::simcall_answered([h]() {
      return json{{"speed", hx(h->get_speed())}, {"avail", hx(h->get_available_speed())}, {"on", h->is_on()},
                  {"pstate", h->get_pstate()}, {"load", hx(h->get_load())}};
    });
  }
  if (o == "link_info") {
    auto* l = sg4::Link::by_name(op[1].get<std::string>());
    return simgrid::kernel::actor::simcall_answered([l]() {
      return json{{"bw", hx(l->get_bandwidth())}, {"lat", hx(l->get_latency())}, {"on", l->is_on()}, {"usage", hx(l->get_load())}};
    });
  }
  if (o == "energy") {
    auto* h = host_by(op[1]);
    return simgrid::kernel::actor::simcall_answered([h]() { return hx(sg_host_get_consumed_energy(h)); });
  }
  if (o == "link_energy") {
    auto* l = sg4::Link::by_name(op[1].get<std::string>());
    return simgrid::kernel::actor::simcall_answered([l]() { return hx(sg_link_get_consumed_energy(l)); });
  }
  if (o == "tick") { // ["tick", k]: read-and-increment of a counter shared by all actors, WITHOUT any simcall (plain memory): it
                     // makes the global order of critical sections observable; only meaningful under sequential contexts
    static std::map<int, int> counters;
    return counters[I(1)]++;
  }
  /* ---- model checking helpers */
  if (o == "mc_random")
    return MC_random(I(1), I(2));
  if (o == "mc_assert") { // ["mc_assert", observation index, expected value]: fails when the observation differs
    MC_assert(c.obs->size() <= static_cast<size_t>(I(1)) || (*c.obs)[I(1)] == op[2]);
    return nullptr;
  }
  /* ---- operations added by extension headers (drivers/s4u_ext_<tag>.hpp) */
  for (auto const& f : ext_ops()) {
    json r;
    if (f(c, idx, op, r))
      return r;
  }
  fprintf(stderr, "unknown op %s\n", o.c_str());
  fflush(stdout);
  _exit(64);
}

static void run_actor(const std::string& name, const json* spec)
{
  Ctx c;
  c.name = name;
  c.ops  = &(*spec)["ops"];
  int nexit = spec->value("on_exit", 0);
  for (int k = 0; k < nexit; k++)
    sg4::this_actor::on_exit([name, k](bool failed) {
      json j = {{"k", "on_exit"}, {"a", name}, {"cb", k}, {"failed", failed}, {"t", hx(now())}};
      emit(j);
    });
  if (S->mc_mode) {
    // the observations must survive a forceful kill: they are published from an on_exit callback
    auto obs = c.obs;
    sg4::this_actor::on_exit([name, obs](bool) {
      std::lock_guard<std::mutex> g(S->lock);
      S->observations[name] = *obs;
      if (++S->done == S->created) { // last actor: publish the terminal outcome with one write
        json out      = S->observations;
        std::string l = "OUTCOME " + out.dump() + "\n";
        if (write(1, l.data(), l.size()) < 0) { /* nothing to do */
        }
      }
    });
  }
  int idx = 0;
  for (auto const& op : *c.ops) {
    if (not S->mc_mode) {
      json j = {{"k", "req"}, {"a", name}, {"i", idx}, {"op", op}, {"t", hx(now())}};
      emit(j);
    }
    try {
      json r = do_op(c, idx, op);
      log_ret(c, idx, r);
    } catch (const simgrid::TimeoutException&) {
      log_exc(c, idx, "Timeout");
    } catch (const simgrid::NetworkFailureException&) {
      log_exc(c, idx, "NetworkFailure");
    } catch (const simgrid::HostFailureException&) {
      log_exc(c, idx, "HostFailure");
    } catch (const simgrid::StorageFailureException&) {
      log_exc(c, idx, "StorageFailure");
    } catch (const simgrid::CancelException&) {
      log_exc(c, idx, "Cancel");
    } catch (const simgrid::VmFailureException&) {
      log_exc(c, idx, "VmFailure");
    } catch (const simgrid::Exception& e) {
      log_exc(c, idx, std::string("simgrid::Exception:") + e.what());
    } catch (const std::invalid_argument& e) {
      log_exc(c, idx, std::string("invalid_argument:") + e.what());
    }
    idx++;
  }
  if (not S->mc_mode) {
    json j = {{"k", "body_end"}, {"a", name}, {"t", hx(now())}};
    emit(j);
  }
}

/* ------------------------------------------------------------------------------------------------ signals */
template <class A> static json act_json(const char* type, A const& a)
{
  json j = {{"type", type}, {"name", a.get_name()}, {"t", hx(now())}, {"state", a.get_state_str()}};
  return j;
}

static void connect_signals()
{
  if (S->mc_mode)
    return;
  if (not is_quiet("adv"))
    sg4::Engine::on_time_advance_cb([](double dt) {
      json j = {{"k", "adv"}, {"dt", hx(dt)}, {"t", hx(now())}};
      emit(j);
    });
  if (not is_quiet("actor")) {
    sg4::Actor::on_creation_cb([](sg4::Actor& a) {
      json j = {{"k", "actor_new"}, {"a", a.get_name()}, {"pid", a.get_pid()}, {"host", a.get_host()->get_name()}, {"t", hx(now())}};
      emit(j);
    });
    sg4::Actor::on_termination_cb([](sg4::Actor const& a) {
      json j = {{"k", "actor_end"}, {"a", a.get_name()}, {"pid", a.get_pid()}, {"t", hx(now())}};
      emit(j);
    });
    sg4::Actor::on_suspend_cb([](sg4::Actor const& a) {
      json j = {{"k", "actor_suspend"}, {"a", a.get_name()}, {"t", hx(now())}};
      emit(j);
    });
    sg4::Actor::on_resume_cb([](sg4::Actor const& a) {
      json j = {{"k", "actor_resume"}, {"a", a.get_name()}, {"t", hx(now())}};
      emit(j);
    });
  }
  if (not is_quiet("onoff")) {
    sg4::Host::on_onoff_cb([](sg4::Host const& h) {
      json j = {{"k", "onoff"}, {"res", "host"}, {"name", h.get_name()}, {"on", h.is_on()}, {"t", hx(now())}};
      emit(j);
    });
    sg4::Link::on_onoff_cb([](sg4::Link const& l) {
      json j = {{"k", "onoff"}, {"res", "link"}, {"name", l.get_name()}, {"on", l.is_on()}, {"t", hx(now())}};
      emit(j);
    });
    sg4::Host::on_speed_change_cb([](sg4::Host const& h) {
      json j = {{"k", "speed_change"}, {"name", h.get_name()}, {"speed", hx(h.get_speed())}, {"avail", hx(h.get_available_speed())},
                {"t", hx(now())}};
      emit(j);
    });
    sg4::Link::on_bandwidth_change_cb([](sg4::Link const& l) {
      json j = {{"k", "bw_change"}, {"name", l.get_name()}, {"bw", hx(l.get_bandwidth())}, {"t", hx(now())}};
      emit(j);
    });
  }
  if (not is_quiet("act")) {
    sg4::Exec::on_start_cb([](sg4::Exec const& a) {
      json j   = act_json("exec", a);
      j["k"]   = "act_start";
      j["host"] = a.get_host() ? a.get_host()->get_name() : "";
      emit(j);
    });
    sg4::Exec::on_completion_cb([](sg4::Exec const& a) {
      json j = act_json("exec", a);
      j["k"] = "act_end";
      j["start"]  = hx(a.get_start_time());
      j["finish"] = hx(a.get_finish_time());
      emit(j);
    });
    sg4::Comm::on_start_cb([](sg4::Comm const& a) {
      json j   = act_json("comm", a);
      j["k"]   = "act_start";
      j["src"] = a.get_source() ? a.get_source()->get_name() : "";
      j["dst"] = a.get_destination() ? a.get_destination()->get_name() : "";
      emit(j);
    });
    sg4::Comm::on_completion_cb([](sg4::Comm const& a) {
      json j = act_json("comm", a);
      j["k"] = "act_end";
      j["start"]  = hx(a.get_start_time());
      j["finish"] = hx(a.get_finish_time());
      j["src"] = a.get_source() ? a.get_source()->get_name() : "";
      j["dst"] = a.get_destination() ? a.get_destination()->get_name() : "";
      emit(j);
    });
    sg4::Io::on_start_cb([](sg4::Io const& a) {
      json j = act_json("io", a);
      j["k"] = "act_start";
      emit(j);
    });
    sg4::Io::on_completion_cb([](sg4::Io const& a) {
      json j = act_json("io", a);
      j["k"] = "act_end";
      j["start"]  = hx(a.get_start_time());
      j["finish"] = hx(a.get_finish_time());
      emit(j);
    });
    sg4::Mess::on_completion_cb([](sg4::Mess const& a) {
      json j = act_json("mess", a);
      j["k"] = "act_end";
      emit(j);
    });
  }
  sg4::Engine::on_deadlock_cb([]() {
    json blocked = json::array();
    for (auto const& a : sg4::Engine::get_instance()->get_all_actors()) {
      auto* impl = a->get_impl();
      // same rule as EngineImpl::display_all_actor_status(): the observer is only printable when no synchro is waited for
      std::string on;
      if (impl->waiting_synchros_.empty())
        on = impl->simcall_.observer_ != nullptr ? impl->simcall_.observer_->to_string() : std::string(impl->simcall_.get_cname());
      else
        for (auto const& sy : impl->waiting_synchros_)
          on += (on.empty() ? "" : ",") + sy->get_name();
      blocked.push_back({{"a", a->get_name()}, {"on", on}, {"nsynchro", impl->waiting_synchros_.size()}, {"daemon", a->is_daemon()}});
    }
    json j = {{"k", "deadlock"}, {"t", hx(now())}, {"blocked", blocked}};
    emit(j);
  });
  sg4::Engine::on_simulation_end_cb([]() {
    json j = {{"k", "end"}, {"t", hx(now())}};
    emit(j);
  });
  if (S->scenario.contains("sample")) {
    sg4::Engine::on_time_advance_cb([](double) {
      const json& sp = S->scenario["sample"];
      json j         = {{"k", "s"}, {"t", hx(now())}};
      if (sp.contains("load"))
        for (auto const& h : sp["load"])
          j["load"][h.get<std::string>()] = hx(host_by(h)->get_load());
      if (sp.contains("speed"))
        for (auto const& h : sp["speed"]) {
          j["speed"][h.get<std::string>()] = hx(host_by(h)->get_speed() * host_by(h)->get_available_speed());
          j["on"][h.get<std::string>()]    = host_by(h)->is_on();
        }
      if (sp.contains("usage"))
        for (auto const& l : sp["usage"])
          j["usage"][l.get<std::string>()] = hx(sg4::Link::by_name(l.get<std::string>())->get_load());
      if (sp.contains("bw"))
        for (auto const& l : sp["bw"]) {
          auto* link                     = sg4::Link::by_name(l.get<std::string>());
          j["bw"][l.get<std::string>()]  = hx(link->get_bandwidth());
          j["lat"][l.get<std::string>()] = hx(link->get_latency());
          j["lon"][l.get<std::string>()] = link->is_on();
        }
      if (sp.contains("energy"))
        for (auto const& h : sp["energy"])
          j["energy"][h.get<std::string>()] = hx(sg_host_get_consumed_energy(host_by(h)));
      if (sp.contains("link_energy"))
        for (auto const& l : sp["link_energy"])
          j["link_energy"][l.get<std::string>()] = hx(sg_link_get_consumed_energy(sg4::Link::by_name(l.get<std::string>())));
      if (sp.value("remaining", false)) {
        std::lock_guard<std::mutex> g(S->lock);
        for (auto const& [k, h] : S->handles)
          if (h.act != nullptr)
            j["rem"][std::to_string(k)] = {hx(h.act->get_remaining()), h.act->get_state_str()};
      }
      emit(j);
    });
  }
}

/* ------------------------------------------------------------------------------------------------ entry */
static void setup(sg4::Engine& e, const json& sc, bool mc_mode)
{
  S           = new State;
  S->scenario = sc;
  S->mc_mode  = mc_mode;
  if (sc.contains("quiet"))
    for (auto const& q : sc["quiet"])
      S->quiet.insert(q.get<std::string>());
  if (sc.contains("cfg"))
    for (auto const& c : sc["cfg"])
      e.set_config(c.get<std::string>());
  if (sc.contains("plugins"))
    for (auto const& p : sc["plugins"]) {
      std::string n = p.get<std::string>();
      if (n == "host_energy")
        sg_host_energy_plugin_init();
      else if (n == "link_energy")
        sg_link_energy_plugin_init();
      else if (n == "host_load")
        sg_host_load_plugin_init();
      else if (n == "link_load")
        sg_link_load_plugin_init();
      else if (n == "file_system")
        sg_storage_file_system_init();
    }
  build_platform(e, sc["platform"]);
  json ob = sc.value("objects", json::object());
  if (ob.contains("mutex"))
    for (auto const& m : ob["mutex"])
      S->mutexes.push_back(sg4::Mutex::create(m.value("recursive", false)));
  if (ob.contains("sem"))
    for (auto const& s : ob["sem"])
      S->sems.push_back(sg4::Semaphore::create(s.get<unsigned>()));
  if (ob.contains("cond"))
    for (auto const& c : ob["cond"]) {
      S->conds.push_back(sg4::ConditionVariable::create());
      S->cond_mutex.push_back(c.get<int>());
    }
  if (ob.contains("barrier"))
    for (auto const& b : ob["barrier"])
      S->barriers.push_back(sg4::Barrier::create(b.get<unsigned>()));
  for (int i = 0; i < ob.value("mailbox", 0); i++)
    S->mailboxes.push_back(sg4::Mailbox::by_name("mb" + std::to_string(i)));
  for (int i = 0; i < ob.value("mqueue", 0); i++)
    S->mqueues.push_back(sg4::MessageQueue::by_name("mq" + std::to_string(i)));
  connect_signals();
  for (auto const& f : ext_setups())
    f();
  for (auto const& a : S->scenario["actors"])
    start_actor(a["name"].get<std::string>(), host_by(a["host"]), &a);
}

} // namespace vf

#if __has_include("s4u_ext_comm.hpp")
#include "s4u_ext_comm.hpp"
#endif
#if __has_include("s4u_ext_time.hpp")
#include "s4u_ext_time.hpp"
#endif
#if __has_include("s4u_ext_model.hpp")
#include "s4u_ext_model.hpp"
#endif
#if __has_include("s4u_ext_fault.hpp")
#include "s4u_ext_fault.hpp"
#endif
#if __has_include("s4u_ext_wf.hpp")
#include "s4u_ext_wf.hpp"
#endif
#if __has_include("s4u_ext_misc.hpp")
#include "s4u_ext_misc.hpp"
#endif
#if __has_include("s4u_ext_mc.hpp")
#include "s4u_ext_mc.hpp"
#endif
