// vf-driver: kind=cxx
/* config_driver: sets configuration items through every public route and reads them back.
 *
 * request: {"argv":[...extra command-line words given to the Engine constructor...],
 *           "list":bool,                      print the registry (config::help() + show_aliases()) on stdout and stop
 *           "read0":[[realname,type],...]     items to read right after the Engine creation
 *           "ops":[{"how":"parse"|"parse_raw"|"string"|"typed"|"c", "name":..., "value":<string, or typed JSON value for typed/c>,
 *                   "read":[[realname,type],...]}]}       items to read back after the op (type: int|double|boolean|string)
 * answer : one JSON line per step, flushed at once (an op may abort the process through xbt_die/xbt_assert):
 *            {"step":"engine"}                                     the Engine exists (argv was accepted)
 *            {"step":i,"ok":true|false,"exc":"<type>","msg":...,"read":{"name":value,...}}
 *          doubles are reported as hexfloat strings.  A C++ exception escaping the Engine constructor is reported as
 *            {"step":"engine","exc":...}.
 * Every case runs in a forked child (the configuration is global state and callbacks may abort).  No oracle here.
 */
#include "simgrid/s4u/Engine.hpp"
#include "xbt/config.h"
#include "xbt/config.hpp"
#include "xbt/log.h"

#include "forkserver.hpp"

#include <cstdio>
#include <cxxabi.h>
#include <nlohmann/json.hpp>
#include <string>
#include <typeinfo>
#include <vector>

using json = nlohmann::json;
namespace cfg = simgrid::config;

static std::string hexf(double d)
{
  char buf[64];
  snprintf(buf, sizeof buf, "%a", d);
  return buf;
}

static void emit(const json& o)
{
  printf("%s\n", o.dump(-1, ' ', true, json::error_handler_t::replace).c_str());
  fflush(stdout);
}

static std::string exc_name(const std::exception& e)
{
  int st;
  char* d = abi::__cxa_demangle(typeid(e).name(), nullptr, nullptr, &st);
  std::string r = d ? d : typeid(e).name();
  free(d);
  return r;
}

static json read_items(const json& what)
{
  json r = json::object();
  for (auto const& it : what) {
    std::string name = it[0], type = it[1];
    try {
      if (type == "int")
        r[name] = cfg::get_value<int>(name);
      else if (type == "double")
        r[name] = hexf(cfg::get_value<double>(name));
      else if (type == "boolean")
        r[name] = cfg::get_value<bool>(name);
      else
        r[name] = cfg::get_value<std::string>(name);
    } catch (const std::exception& e) {
      r[name] = json{{"exc", exc_name(e)}};
    }
  }
  return r;
}

static int run_case(const std::string& text)
{
  json in = json::parse(text);
  std::vector<std::string> args{"config_driver"};
  if (in.contains("argv"))
    for (auto const& a : in["argv"])
      args.push_back(a.get<std::string>());
  std::vector<char*> argv;
  for (auto& a : args)
    argv.push_back(a.data());
  argv.push_back(nullptr);
  int argc = static_cast<int>(args.size());
  try {
    static simgrid::s4u::Engine* e = new simgrid::s4u::Engine(&argc, argv.data());
    (void)e;
  } catch (const std::exception& e) {
    emit(json{{"step", "engine"}, {"exc", exc_name(e)}, {"msg", std::string(e.what()).substr(0, 300)}});
    return 0;
  }
  json first{{"step", "engine"}};
  if (in.contains("read0"))
    first["read"] = read_items(in["read0"]);
  emit(first);
  if (in.value("list", false)) {
    // XBT_HELP writes on stdout
    printf("@@HELP\n");
    fflush(stdout);
    cfg::help();
    fflush(stdout);
    printf("@@ALIASES\n");
    fflush(stdout);
    cfg::show_aliases();
    fflush(stdout);
    printf("@@END-LIST\n");
    return 0;
  }
  int i = 0;
  for (auto const& op : in["ops"]) {
    std::string how = op["how"], name = op["name"];
    json o{{"step", i++}};
    try {
      if (how == "parse")
        cfg::set_parse(name + ":" + op["value"].get<std::string>());
      else if (how == "parse_raw") // several settings in one --cfg string
        cfg::set_parse(op["value"].get<std::string>());
      else if (how == "string")
        cfg::set_as_string(name.c_str(), op["value"].get<std::string>());
      else if (how == "typed" || how == "c") {
        const json& v = op["value"];
        bool c        = how == "c";
        std::string t = op["type"];
        if (t == "int")
          c ? sg_cfg_set_int(name.c_str(), v.get<int>()) : cfg::set_value<int>(name.c_str(), v.get<int>());
        else if (t == "double")
          c ? sg_cfg_set_double(name.c_str(), v.get<double>()) : cfg::set_value<double>(name.c_str(), v.get<double>());
        else if (t == "boolean") {
          if (c)
            sg_cfg_set_boolean(name.c_str(), v.get<std::string>().c_str()); // the C API takes the spelling
          else
            cfg::set_value<bool>(name.c_str(), v.get<bool>());
        } else
          c ? sg_cfg_set_string(name.c_str(), v.get<std::string>().c_str())
            : cfg::set_value<std::string>(name.c_str(), v.get<std::string>());
      }
      o["ok"] = true;
    } catch (const std::exception& e) {
      o["ok"]  = false;
      o["exc"] = exc_name(e);
      o["msg"] = std::string(e.what()).substr(0, 200);
    } catch (const std::string& e) { // some callbacks throw a bare std::string
      o["ok"]  = false;
      o["exc"] = "std::string";
      o["msg"] = e.substr(0, 200);
    }
    if (op.contains("read"))
      o["read"] = read_items(op["read"]);
    emit(o);
  }
  emit(json{{"step", "end"}});
  return 0;
}

static void preload()
{
  // nothing can be initialised before the fork: the Engine constructor is what parses --cfg
}

int main(int argc, char** argv)
{
  return vf_main(argc, argv, run_case, preload);
}
