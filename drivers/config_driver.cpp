// vf-driver: kind=cxx
/* config_driver: sets configuration items through every public route and reads them back.
 *
 * request: {"argv":[...extra command-line words given to the Engine constructor...],
 *           "list":bool,                      print the registry (config::help() + show_aliases()) on stdout and stop
 *           "read0":[[realname,type],...]     items to read right after the Engine creation
 *           "read_end":[[realname,type],...]  items to read after the last op
 *           "ops":[{"how":"parse"|"parse_raw"|"string"|"typed"|"c"|"poke", "name":..., "value":<string, or typed JSON value for typed/c>,
 *                   "read":[[realname,type],...]}]}       items to read back after the op (type: int|double|boolean|string)
 * answer : one JSON line per step, flushed at once (an op may abort the process through xbt_die/xbt_assert):
 *            {"step":"engine"}                                     the Engine exists (argv was accepted)
 *            {"step":i,"ok":true|false,"exc":"<type>","msg":...,"read":{"name":value,...},"bound":{...}}
 *            ("bound": the C++ variables that a few items are bound to, e.g. sg_precision_timing, Context::stack_size;
 *             "vf": for each of the driver's own five test flags vf/..., the number of callback invocations so far and the
 *             bound variable; "poke" assigns the bound variable of a test flag directly)
 *          doubles are reported as hexfloat strings.  A C++ exception escaping the Engine constructor is reported as
 *            {"step":"engine","exc":...}.
 * Every case runs in a forked child (the configuration is global state and callbacks may abort).  No oracle here.
 * config_driver creates the Engine once before forking (so "argv" is ignored); config_argv_driver creates it in each child;
 * config_inproc_driver never forks: one Engine, cases run one after the other in the server process, which restores every
 * item after each case (step "restored"); only for cases whose items have store-only callbacks (chosen by the Python side).
 */
#include "simgrid/s4u/Engine.hpp"
#include "src/kernel/context/Context.hpp"
#include "src/kernel/lmm/System.hpp"
#include "xbt/config.h"
#include "xbt/config.hpp"
#include "xbt/log.h"

#include "forkserver.hpp"

#include <cstdio>
#include <cstring>
#include <cxxabi.h>
#include <nlohmann/json.hpp>
#include <string>
#include <typeinfo>
#include <vector>

using json = nlohmann::json;
namespace cfg = simgrid::config;

static std::string hexf(double d)
{
  char buf[64];
  snprintf(buf, sizeof buf, "%a", d);
  return buf;
}

static void emit(const json& o)
{
  printf("%s\n", o.dump(-1, ' ', true, json::error_handler_t::replace).c_str());
  fflush(stdout);
}

static std::string exc_name(const std::exception& e)
{
  int st;
  char* d = abi::__cxa_demangle(typeid(e).name(), nullptr, nullptr, &st);
  std::string r = d ? d : typeid(e).name();
  free(d);
  return r;
}

static int run_ops(const json& in);

extern simgrid::config::Flag<double> _smpi_cfg_cpu_threshold;

/* ---- test flags of our own.  The registered items of SimGrid mostly refuse values with xbt_die (the process is gone) and have
 * idempotent callbacks, so they cannot show whether the configuration engine runs a callback exactly once per setting, or
 * whether a value refused by an exception is refused every time.  These five items are declared with the public
 * simgrid::config::Flag<T> API: callbacks that count their invocations, refuse values by throwing, and a bound variable. ---- */
static int vf_calls[5] = {0, 0, 0, 0, 0};
static simgrid::config::Flag<int> vf_int_even{"vf/int-even", "verification flag: even integers only (boolean predicate)", 0, [](int v) {
                                                vf_calls[0]++;
                                                return v % 2 == 0;
                                              }};
static simgrid::config::Flag<int> vf_int_range{"vf/int-range", {"vf/int-range-alias"}, "verification flag: integers of [-100, 100]", 1,
                                               [](int v) {
                                                 vf_calls[1]++;
                                                 if (v < -100 || v > 100)
                                                   throw std::invalid_argument("vf/int-range: out of [-100, 100]");
                                               }};
static simgrid::config::Flag<double> vf_double_pos{"vf/double-pos", {"vf/dpos"}, "verification flag: non-negative doubles", 1.0,
                                                   [](double v) {
                                                     vf_calls[2]++;
                                                     if (not(v >= 0))
                                                       throw std::range_error("vf/double-pos: negative");
                                                   }};
static simgrid::config::Flag<bool> vf_bool{"vf/bool", {"vf/bool-alias"}, "verification flag: any boolean", false,
                                           [](bool) { vf_calls[3]++; }};
static simgrid::config::Flag<std::string> vf_string{"vf/string-abc", {"vf/sabc"}, "verification flag: one of a, b, c", "a",
                                                    [](const std::string& v) {
                                                      vf_calls[4]++;
                                                      if (v != "a" && v != "b" && v != "c")
                                                        throw std::invalid_argument("vf/string-abc: not one of a, b, c");
                                                    }};

static json vf_state()
{
  return json{{"vf/int-even", {{"calls", vf_calls[0]}, {"var", vf_int_even.get()}}},
              {"vf/int-range", {{"calls", vf_calls[1]}, {"var", vf_int_range.get()}}},
              {"vf/double-pos", {{"calls", vf_calls[2]}, {"var", hexf(vf_double_pos.get())}}},
              {"vf/bool", {{"calls", vf_calls[3]}, {"var", vf_bool.get()}}},
              {"vf/string-abc", {{"calls", vf_calls[4]}, {"var", vf_string.get()}}}};
}

/* every test flag is explicitly set once (typed API) so that all cases start from the same "not default any more" state,
 * whatever ran before in this process; also used to put them back after an in-process case */
static void vf_reset()
{
  cfg::set_value<int>("vf/int-even", 0);
  cfg::set_value<int>("vf/int-range", 1);
  cfg::set_value<double>("vf/double-pos", 1.0);
  cfg::set_value<bool>("vf/bool", false);
  cfg::set_value<std::string>("vf/string-abc", "a");
}

/* direct assignment to the variable bound to a flag (Flag::operator=), as sg_config_continue_after_help() or smpi_check_options() do */
static void vf_poke(const std::string& name, const json& v)
{
  if (name == "vf/int-even")
    vf_int_even = v.get<int>();
  else if (name == "vf/int-range")
    vf_int_range = v.get<int>();
  else if (name == "vf/double-pos")
    vf_double_pos = v.get<double>();
  else if (name == "vf/bool")
    vf_bool = v.get<bool>();
  else if (name == "vf/string-abc")
    vf_string = v.get<std::string>();
}

/* the variables that some items are bound to: they show that the item's callback ran */
static json bound_vars()
{
  using simgrid::kernel::context::Context;
  return json{{"precision/timing", hexf(sg_precision_timing)},
              {"precision/work-amount", hexf(sg_precision_workamount)},
              {"maxmin/concurrency-limit", sg_concurrency_limit},
              {"contexts/stack-size", Context::stack_size},
              {"contexts/guard-size", Context::guard_size},
              {"contexts/nthreads", Context::parallel_contexts},
              {"smpi/cpu-threshold", hexf(_smpi_cfg_cpu_threshold.get())},
              {"pagesize", xbt_pagesize}};
}

static json read_items(const json& what)
{
  json r = json::object();
  for (auto const& it : what) {
    std::string name = it[0], type = it[1];
    try {
      // cheap self-check: the C getters must agree with get_value<T>
      bool c_ok = true;
      if (type == "int") {
        r[name] = cfg::get_value<int>(name);
        c_ok    = sg_cfg_get_int(name.c_str()) == cfg::get_value<int>(name);
      } else if (type == "double") {
        double d = cfg::get_value<double>(name);
        r[name]  = hexf(d);
        double c = sg_cfg_get_double(name.c_str());
        c_ok     = memcmp(&c, &d, sizeof d) == 0;
      } else if (type == "boolean") {
        r[name] = cfg::get_value<bool>(name);
        c_ok    = (sg_cfg_get_boolean(name.c_str()) != 0) == cfg::get_value<bool>(name);
      } else
        r[name] = cfg::get_value<std::string>(name);
      if (not c_ok)
        r[name] = json{{"exc", "sg_cfg_get_* disagrees with get_value<T>"}};
    } catch (const std::exception& e) {
      r[name] = json{{"exc", exc_name(e)}};
    }
  }
  return r;
}

static simgrid::s4u::Engine* engine = nullptr;

static int run_case(const std::string& text)
{
  json in = json::parse(text);
  if (engine != nullptr) { // created before the fork (preload): only the ops are executed here
    return run_ops(in);
  }
  std::vector<std::string> args{"config_driver"};
  if (in.contains("argv"))
    for (auto const& a : in["argv"])
      args.push_back(a.get<std::string>());
  std::vector<char*> argv;
  for (auto& a : args)
    argv.push_back(a.data());
  argv.push_back(nullptr);
  int argc = static_cast<int>(args.size());
  try {
    engine = new simgrid::s4u::Engine(&argc, argv.data());
#ifdef VF_CONFIG_INPROC
    vf_reset();
#endif
  } catch (const std::exception& e) {
    emit(json{{"step", "engine"}, {"exc", exc_name(e)}, {"msg", std::string(e.what()).substr(0, 300)}});
    return 0;
  }
  return run_ops(in);
}

static int run_ops(const json& in)
{
  json first{{"step", "engine"}};
  if (in.contains("read0"))
    first["read"] = read_items(in["read0"]);
  first["vf"] = vf_state();
  emit(first);
  if (in.value("list", false)) {
    // XBT_HELP writes on stdout
    printf("@@HELP\n");
    fflush(stdout);
    cfg::help();
    fflush(stdout);
    printf("@@ALIASES\n");
    fflush(stdout);
    cfg::show_aliases();
    fflush(stdout);
    printf("@@END-LIST\n");
    return 0;
  }
  int i = 0;
  for (auto const& op : in["ops"]) {
    std::string how = op["how"], name = op["name"];
    json o{{"step", i++}};
    try {
      if (how == "parse")
        cfg::set_parse(name + ":" + op["value"].get<std::string>());
      else if (how == "parse_raw") // several settings in one --cfg string
        cfg::set_parse(op["value"].get<std::string>());
      else if (how == "poke")
        vf_poke(name, op["value"]);
      else if (how == "string")
        cfg::set_as_string(name.c_str(), op["value"].get<std::string>());
      else if (how == "typed" || how == "c") {
        const json& v = op["value"];
        bool c        = how == "c";
        std::string t = op["type"];
        if (t == "int")
          c ? sg_cfg_set_int(name.c_str(), v.get<int>()) : cfg::set_value<int>(name.c_str(), v.get<int>());
        else if (t == "double")
          c ? sg_cfg_set_double(name.c_str(), v.get<double>()) : cfg::set_value<double>(name.c_str(), v.get<double>());
        else if (t == "boolean") {
          if (c)
            sg_cfg_set_boolean(name.c_str(), v.get<std::string>().c_str()); // the C API takes the spelling
          else
            cfg::set_value<bool>(name.c_str(), v.get<bool>());
        } else
          c ? sg_cfg_set_string(name.c_str(), v.get<std::string>().c_str())
            : cfg::set_value<std::string>(name.c_str(), v.get<std::string>());
      }
      o["ok"] = true;
    } catch (const std::exception& e) {
      o["ok"]  = false;
      o["exc"] = exc_name(e);
      o["msg"] = std::string(e.what()).substr(0, 200);
    } catch (const std::string& e) { // some callbacks throw a bare std::string
      o["ok"]  = false;
      o["exc"] = "std::string";
      o["msg"] = e.substr(0, 200);
    }
    if (op.contains("read"))
      o["read"] = read_items(op["read"]);
    o["bound"] = bound_vars();
    o["vf"]    = vf_state();
    emit(o);
  }
  json last{{"step", "end"}};
  if (in.contains("read_end"))
    last["read"] = read_items(in["read_end"]);
  emit(last);
#ifdef VF_CONFIG_INPROC
  // no fork here: put every item back to the value it had when this process read it first, and say whether that worked
  if (in.contains("read_end")) {
    static json baseline;
    if (baseline.is_null())
      baseline = first["read"];
    bool ok = true;
    try {
      for (auto const& it : in["read_end"]) {
        std::string name = it[0], type = it[1];
        if (not baseline.contains(name) || baseline[name] == last["read"][name])
          continue;
        if (type == "int")
          cfg::set_value<int>(name.c_str(), baseline[name].get<int>());
        else if (type == "double")
          cfg::set_value<double>(name.c_str(), strtod(baseline[name].get<std::string>().c_str(), nullptr));
        else if (type == "boolean")
          cfg::set_value<bool>(name.c_str(), baseline[name].get<bool>());
        else
          cfg::set_value<std::string>(name.c_str(), baseline[name].get<std::string>());
      }
      vf_reset(); // also puts the bound variables back (a "poke" changes them without changing the item)
      ok = read_items(in["read_end"]) == baseline;
    } catch (...) {
      ok = false;
    }
    emit(json{{"step", "restored"}, {"ok", ok}});
  }
#endif
  return 0;
}

static void preload()
{
#ifndef VF_CONFIG_ARGV
  // The Engine is created once in the server; every case runs in a forked child that inherits it (creating an Engine in
  // each child costs ~30 ms of page faults here).  config_argv_driver is the same program without this preload: there the
  // Engine constructor runs in the child, with the case's --cfg words on its command line.
  static int argc      = 1;
  static char name[]   = "config_driver";
  static char* argv[2] = {name, nullptr};
  engine               = new simgrid::s4u::Engine(&argc, argv);
  vf_reset();
#endif
}

int main(int argc, char** argv)
{
#ifdef VF_CONFIG_INPROC
  xbt_log_control_set("xbt_cfg.thres:warning"); // "Configuration change" lines would fill the error file
  return vf_main(argc, argv, run_case, nullptr, true);
#else
  return vf_main(argc, argv, run_case, preload);
#endif
}
