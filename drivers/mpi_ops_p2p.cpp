/* mpi_ops_p2p.cpp: point-to-point completion operations for C28 (builder mpi2).  Part of the mpi_interp family
 * (see mpi_interp.hpp / notes/MPI_INFRA.md); linked into the `mpi2_interp` driver.
 *
 *   complete     every MPI completion call (Wait, Waitall, Waitany, Waitsome, Test, Testall, Testany, Testsome) driven until all
 *                the listed requests are complete; one event per request with the status the call returned for it
 *   probe_recv   MPI_Probe / MPI_Iprobe loop, then MPI_Recv of exactly that message into a buffer sized from the probed count
 *   crcs         CRC-32 (zlib) + guard-zone check of a list of buffers (big messages: no hex dump)
 *   p2p_bufs     creates many buffers in one operation
 */
#include "mpi_interp.hpp"

using namespace mpii;

static constexpr size_t GUARD = mpii::BUF_GUARD;

static uint32_t crc32_of(const unsigned char* p, size_t n)
{
  static uint32_t table[256];
  static bool init = false;
  if (not init) {
    for (uint32_t i = 0; i < 256; i++) {
      uint32_t c = i;
      for (int k = 0; k < 8; k++)
        c = (c & 1) ? 0xEDB88320u ^ (c >> 1) : c >> 1;
      table[i] = c;
    }
    init = true;
  }
  uint32_t c = 0xFFFFFFFFu;
  for (size_t i = 0; i < n; i++)
    c = table[(c ^ p[i]) & 0xFF] ^ (c >> 8);
  return c ^ 0xFFFFFFFFu;
}

static bool guards_ok(const std::vector<unsigned char>& b)
{
  for (size_t i = 0; i < GUARD; i++)
    if (b[i] != 0xA5 || b[b.size() - 1 - i] != 0xA5)
      return false;
  return true;
}

static std::vector<unsigned char> make_buf(Rank& R, const json& d)
{
  size_t size = d.at("size").get<size_t>();
  if (size > (64u << 20))
    throw BadCase("buffer too large");
  std::vector<unsigned char> b(size + 2 * GUARD, 0xA5);
  unsigned char* p = b.data() + GUARD;
  if (d.contains("pat")) { // same pattern as the `buf` operation of mpi_ops_base.cpp
    long seed = d.at("pat").get<long>();
    for (size_t k = 0; k < size; k++)
      p[k] = static_cast<unsigned char>((seed + 37L * R.rank + 11L * static_cast<long>(k) + static_cast<long>(k / 251)) % 251 + 1);
  } else {
    memset(p, d.value("fill", 0), size);
  }
  return b;
}

/* {"op":"p2p_bufs","bufs":[{"name":n,"size":bytes,"pat":seed | "fill":byte}, ...]} */
MPI_OPERATION(p2p_bufs)
{
  for (auto const& d : a.at("bufs"))
    R.bufs[d.at("name").get<std::string>()] = make_buf(R, d);
  o["rc"] = 0;
}

/* {"op":"p2p_fill","bufs":[names],"fill":byte}: overwrites whole buffers (a sender reusing its buffer once the send is complete) */
MPI_OPERATION(p2p_fill)
{
  for (auto const& n : a.at("bufs")) {
    auto& b = Rank::find(R.bufs, n.get<std::string>(), "buffer");
    memset(b.data() + GUARD, a.value("fill", 0), b.size() - 2 * GUARD);
  }
  o["rc"] = 0;
}

/* {"op":"crcs","bufs":[names],"slack":bytes?} -> "res": [[size, crc32 of the first size-slack bytes, guards_ok, hex of the first 8 bytes,
 *  crc32 of the last `slack` bytes], ...] */
MPI_OPERATION(crcs)
{
  json res     = json::array();
  size_t slack = a.value("slack", 0);
  for (auto const& n : a.at("bufs")) {
    auto it = R.bufs.find(n.get<std::string>());
    if (it == R.bufs.end()) { // a probe_recv that gave up never created its buffer
      res.push_back(nullptr);
      continue;
    }
    auto& b   = it->second;
    size_t sz = b.size() - 2 * GUARD;
    size_t sl = std::min(slack, sz);
    res.push_back({sz, crc32_of(b.data() + GUARD, sz - sl), guards_ok(b), to_hex(b.data() + GUARD, std::min<size_t>(sz, 8)),
                   crc32_of(b.data() + GUARD + sz - sl, sl)});
  }
  o["res"] = res;
  o["rc"]  = 0;
}

static json status_json(const MPI_Status& st, MPI_Datatype type)
{
  json s;
  s["src"] = st.MPI_SOURCE;
  s["tag"] = st.MPI_TAG;
  s["err"] = st.MPI_ERROR;
  int cnt  = -12345;
  s["crc"] = MPI_Get_count(&st, type, &cnt);
  s["count"] = cnt;
  return s;
}

/* {"op":"complete","mode":"wait|waitall|waitany|waitsome|test|testall|testany|testsome","reqs":[names],"types":[type names]?,
 *  "maxcalls":n?}
 * Calls the completion function until every listed request is complete.
 * -> "ev": [{"req":name,"k":position in reqs,"call":number of the call that returned it,"rc":return code of that call,
 *            "src","tag","err","count","crc"(return code of MPI_Get_count),"null":request handle is MPI_REQUEST_NULL afterwards}]
 *    in the order in which the completions were returned; "calls": number of calls; "rc": last return code;
 *    "bad": text when the call returned something that cannot be interpreted (index out of range, a request returned twice...:
 *    the remaining requests are then completed with MPI_Wait, events marked "fallback");
 *    "gaveup": true when maxcalls was reached (test* modes poll; every unsuccessful call advances the simulated clock). */
MPI_OPERATION(complete)
{
  std::string mode = a.value("mode", std::string("waitall"));
  std::vector<std::string> names;
  for (auto const& n : a.at("reqs"))
    names.push_back(n.get<std::string>());
  int n = static_cast<int>(names.size());
  std::vector<MPI_Request> rq;
  std::vector<MPI_Datatype> ty;
  for (int k = 0; k < n; k++) {
    rq.push_back(Rank::find(R.reqs, names[k], "request"));
    if (a.contains("types"))
      ty.push_back(Rank::find(R.types, a.at("types").at(k).get<std::string>(), "type"));
    else
      ty.push_back(MPI_BYTE);
  }
  std::vector<bool> done(n, false);
  int ndone    = 0;
  long calls   = 0;
  long maxcall = a.value("maxcalls", 20000L);
  json ev      = json::array();
  int rc       = MPI_SUCCESS;
  std::string bad;
  auto event = [&](int k, const MPI_Status& st, int callrc) {
    if (k < 0 || k >= n) {
      bad = "index " + std::to_string(k) + " out of range";
      return false;
    }
    if (done[k]) {
      bad = "request #" + std::to_string(k) + " returned twice";
      return false;
    }
    done[k] = true;
    ndone++;
    json e   = status_json(st, ty[k]);
    e["req"] = names[k];
    e["k"]   = k;
    e["call"] = calls;
    e["rc"]   = callrc;
    e["null"] = rq[k] == MPI_REQUEST_NULL;
    ev.push_back(e);
    return true;
  };
  MPI_Status blank;
  memset(&blank, 0x5a, sizeof blank);

  if (mode == "wait" || mode == "test") {
    for (int k = 0; k < n && bad.empty(); k++) {
      MPI_Status st = blank;
      if (mode == "wait") {
        calls++;
        rc = MPI_Wait(&rq[k], &st);
        event(k, st, rc);
      } else {
        int flag = 0;
        while (not flag && calls < maxcall) {
          st = blank;
          calls++;
          flag = -1;
          rc   = MPI_Test(&rq[k], &flag, &st);
          if (flag != 0 && flag != 1)
            bad = "MPI_Test left flag=" + std::to_string(flag);
        }
        if (flag)
          event(k, st, rc);
      }
    }
  } else if (mode == "waitall") {
    std::vector<MPI_Status> sts(n, blank);
    calls++;
    rc = MPI_Waitall(n, ptr(rq), ptr(sts));
    for (int k = 0; k < n; k++)
      event(k, sts[k], rc);
  } else if (mode == "testall") {
    std::vector<MPI_Status> sts(n, blank);
    int flag = 0;
    while (not flag && calls < maxcall) {
      sts.assign(n, blank);
      calls++;
      flag = -1;
      rc   = MPI_Testall(n, ptr(rq), &flag, ptr(sts));
      if (flag != 0 && flag != 1)
        bad = "MPI_Testall left flag=" + std::to_string(flag);
    }
    if (flag)
      for (int k = 0; k < n; k++)
        event(k, sts[k], rc);
  } else if (mode == "waitany" || mode == "testany") {
    while (ndone < n && bad.empty() && calls < maxcall) {
      MPI_Status st = blank;
      int idx       = -777;
      int flag      = 1;
      calls++;
      if (mode == "waitany")
        rc = MPI_Waitany(n, ptr(rq), &idx, &st);
      else {
        flag = -1;
        rc   = MPI_Testany(n, ptr(rq), &idx, &flag, &st);
        if (flag != 0 && flag != 1)
          bad = "MPI_Testany left flag=" + std::to_string(flag);
        if (not flag)
          continue;
      }
      if (idx == MPI_UNDEFINED) {
        bad = "index MPI_UNDEFINED while " + std::to_string(n - ndone) + " requests are still active";
        break;
      }
      event(idx, st, rc);
    }
  } else if (mode == "waitsome" || mode == "testsome") {
    while (ndone < n && bad.empty() && calls < maxcall) {
      std::vector<MPI_Status> sts(n, blank);
      std::vector<int> idx(n, -777);
      int outcount = -777;
      calls++;
      if (mode == "waitsome")
        rc = MPI_Waitsome(n, ptr(rq), &outcount, ptr(idx), ptr(sts));
      else
        rc = MPI_Testsome(n, ptr(rq), &outcount, ptr(idx), ptr(sts));
      if (outcount == MPI_UNDEFINED) {
        bad = "outcount MPI_UNDEFINED while " + std::to_string(n - ndone) + " requests are still active";
        break;
      }
      if (outcount < 0 || outcount > n || (mode == "waitsome" && outcount == 0)) {
        bad = "outcount " + std::to_string(outcount);
        break;
      }
      for (int j = 0; j < outcount && bad.empty(); j++)
        event(idx[j], sts[j], rc);
    }
  } else {
    throw BadCase("unknown completion mode " + mode);
  }
  if (not bad.empty()) {
    /* the call answered something impossible (e.g. "no active request" while some are): finish the remaining requests with
     * MPI_Wait so that the rest of the program can still be judged; those events carry "fallback": true */
    std::string keep = bad;
    for (int k = 0; k < n; k++)
      if (not done[k]) {
        MPI_Status st = blank;
        int wrc       = rq[k] == MPI_REQUEST_NULL ? MPI_SUCCESS : MPI_Wait(&rq[k], &st);
        if (event(k, st, wrc))
          ev.back()["fallback"] = true;
      }
    bad = keep;
  }
  for (int k = 0; k < n; k++)
    R.reqs[names[k]] = rq[k];
  o["ev"]    = ev;
  o["calls"] = calls;
  o["rc"]    = rc;
  if (not bad.empty())
    o["bad"] = bad;
  if (ndone < n && bad.empty())
    o["gaveup"] = true;
}

/* {"op":"probe_recv","mode":"probe"|"iprobe","src","tag","comm"?,"type"?,"buf":name,"delta":d,"slack":bytes,"maxcalls":n?}
 * MPI_Probe (or MPI_Iprobe until flag), then creates buffer `name` of max(0,count+delta) elements + slack bytes (filled with
 * 0xFE) and receives max(0,count+delta) elements from (status.MPI_SOURCE, status.MPI_TAG).
 * -> "p": status of the probe, "calls", "cap": elements, then "rc","src","tag","err","count","crc" of the receive */
MPI_OPERATION(probe_recv)
{
  std::string mode = a.value("mode", std::string("probe"));
  MPI_Datatype t   = a.contains("type") ? R.type(a) : MPI_BYTE;
  MPI_Comm c       = R.comm(a);
  int src          = a.at("src").get<int>();
  int tag          = a.at("tag").get<int>();
  long maxcall     = a.value("maxcalls", 20000L);
  long calls       = 0;
  MPI_Status st;
  memset(&st, 0x5a, sizeof st);
  int prc = MPI_SUCCESS;
  if (mode == "probe") {
    calls++;
    prc = MPI_Probe(src, tag, c, &st);
  } else {
    int flag = 0;
    while (not flag && calls < maxcall) {
      memset(&st, 0x5a, sizeof st);
      calls++;
      prc = MPI_Iprobe(src, tag, c, &flag, &st);
    }
    if (not flag) {
      o["gaveup"] = true;
      o["calls"]  = calls;
      o["rc"]     = prc;
      return;
    }
  }
  json p    = status_json(st, t);
  p["rc"]   = prc;
  o["p"]    = p;
  o["calls"] = calls;
  int cnt    = p.at("count").get<int>();
  int tsize  = 0;
  MPI_Type_size(t, &tsize);
  if (prc != MPI_SUCCESS || cnt < 0 || cnt > (32 << 20)) {
    o["rc"] = prc;
    return;
  }
  int cap      = std::max(0, cnt + a.value("delta", 0));
  size_t bytes = static_cast<size_t>(cap) * tsize + a.value("slack", 0);
  std::vector<unsigned char> b(bytes + 2 * GUARD, 0xA5);
  memset(b.data() + GUARD, 0xFE, bytes);
  auto& slot = R.bufs[a.at("buf").get<std::string>()];
  slot       = std::move(b);
  MPI_Status st2;
  memset(&st2, 0x5a, sizeof st2);
  o["rc"]  = MPI_Recv(slot.data() + GUARD, cap, t, st.MPI_SOURCE, st.MPI_TAG, c, &st2);
  o["cap"] = cap;
  json s   = status_json(st2, t);
  for (auto it = s.begin(); it != s.end(); ++it)
    o[it.key()] = it.value();
}

/* {"op":"recv2", ...}: like `recv` of mpi_ops_base.cpp, same output fields as the events of `complete` (count through MPI_Get_count
 * with its return code) */
MPI_OPERATION(recv2)
{
  auto& b        = R.buf(a);
  int count      = a.at("count").get<int>();
  MPI_Datatype t = R.type(a);
  MPI_Status st;
  memset(&st, 0x5a, sizeof st);
  o["rc"]  = MPI_Recv(b.data() + GUARD, count, t, a.at("src").get<int>(), a.at("tag").get<int>(), R.comm(a), &st);
  json s   = status_json(st, t);
  for (auto it = s.begin(); it != s.end(); ++it)
    o[it.key()] = it.value();
}

/* {"op":"sendrecv2","sbuf","scount","stype","dest","stag","rbuf","rcount","rtype","src","rtag","comm"?} */
MPI_OPERATION(sendrecv2)
{
  auto& sb = R.buf(a, "sbuf");
  auto& rb = R.buf(a, "rbuf");
  MPI_Status st;
  memset(&st, 0x5a, sizeof st);
  MPI_Datatype rt = R.type(a, "rtype");
  o["rc"] = MPI_Sendrecv(sb.data() + GUARD, a.at("scount").get<int>(), R.type(a, "stype"), a.at("dest").get<int>(),
                         a.at("stag").get<int>(), rb.data() + GUARD, a.at("rcount").get<int>(), rt, a.at("src").get<int>(),
                         a.at("rtag").get<int>(), R.comm(a), &st);
  json s  = status_json(st, rt);
  for (auto it = s.begin(); it != s.end(); ++it)
    o[it.key()] = it.value();
}
