// vf-driver: kind=c libs=-lpthread
/* pthread_interp: the synchronisation programs of vf/syncgen.py as a plain pthread program, to be run under
 * LD_PRELOAD=libsthread.so (alone, or as the application of simgrid-mc).  No SimGrid header, no SimGrid call.
 *
 * usage: pthread_interp <program file>
 * program file (text, written by vf/sthread.py):
 *   M <n> <rec0> <rec1> ...        mutexes (1 = recursive)
 *   S <n> <cap0> ...               semaphores
 *   C <n> <mutex of cond 0> ...    condition variables
 *   B <n> <count0> ...             barriers
 *   T <n>                          number of threads, then one line per thread:
 *   <nops> op op op ...            with op =  L<m> lock | Y<m> try_lock | U<m> unlock | I<m>,<j> unlock iff the j-th try_lock succeeded |
 *                                  A<s> sem_wait | R<s> sem_post | W<c>,<m> cond_wait | F<c>,<m>,<ms> cond_timedwait | N<c> signal |
 *                                  X<c> broadcast | b<k> barrier_wait | k<c> tick (shared counter) | z<ms> usleep
 * When every thread has been joined, main prints  OUTCOME {"a0":[...],"a1":[...]}  (null / true / false / integers / "skipped" / "*").
 */
#define _GNU_SOURCE
#include <errno.h>
#include <pthread.h>
#include <semaphore.h>
#include <stdio.h>
#include <stdlib.h>
#include <string.h>
#include <sys/time.h>
#include <unistd.h>

#define MAXOBJ 8
#define MAXOPS 64
#define MAXTH 8

static pthread_mutex_t mutexes[MAXOBJ];
static sem_t sems[MAXOBJ];
static pthread_cond_t conds[MAXOBJ];
static pthread_barrier_t barriers[MAXOBJ];
static int counters[256];

typedef struct {
  char kind;
  int a, b, c;
} op_t;
typedef struct {
  int nops;
  op_t ops[MAXOPS];
  char obs[MAXOPS][16];
  int ntry;
  int trys[MAXOPS];
} thread_t;
static thread_t threads[MAXTH];
static int nthreads;

static void* body(void* arg)
{
  thread_t* t = (thread_t*)arg;
  for (int i = 0; i < t->nops; i++) {
    op_t* o = &t->ops[i];
    strcpy(t->obs[i], "null");
    switch (o->kind) {
      case 'L':
        pthread_mutex_lock(&mutexes[o->a]);
        break;
      case 'Y': {
        int ok = pthread_mutex_trylock(&mutexes[o->a]) == 0;
        t->trys[t->ntry++] = ok;
        strcpy(t->obs[i], ok ? "true" : "false");
        break;
      }
      case 'U':
        pthread_mutex_unlock(&mutexes[o->a]);
        break;
      case 'I':
        if (o->b < t->ntry && t->trys[o->b])
          pthread_mutex_unlock(&mutexes[o->a]);
        else
          strcpy(t->obs[i], "\"skipped\"");
        break;
      case 'A':
        sem_wait(&sems[o->a]);
        break;
      case 'R':
        sem_post(&sems[o->a]);
        break;
      case 'W':
        pthread_cond_wait(&conds[o->a], &mutexes[o->b]);
        break;
      case 'F': {
        struct timeval now;
        struct timespec ts;
        gettimeofday(&now, NULL);
        long long us = (long long)now.tv_sec * 1000000LL + now.tv_usec + (long long)o->c * 1000LL;
        ts.tv_sec    = us / 1000000LL;
        ts.tv_nsec   = (us % 1000000LL) * 1000;
        int r        = pthread_cond_timedwait(&conds[o->a], &mutexes[o->b], &ts);
        strcpy(t->obs[i], r == ETIMEDOUT ? "true" : "false");
        break;
      }
      case 'N':
        pthread_cond_signal(&conds[o->a]);
        break;
      case 'X':
        pthread_cond_broadcast(&conds[o->a]);
        break;
      case 'b':
        pthread_barrier_wait(&barriers[o->a]);
        strcpy(t->obs[i], "\"*\"");
        break;
      case 'k':
        snprintf(t->obs[i], sizeof t->obs[i], "%d", counters[o->a]++);
        break;
      case 'z':
        usleep(o->a * 1000);
        break;
      default:
        fprintf(stderr, "unknown op %c\n", o->kind);
        exit(64);
    }
  }
  return NULL;
}

int main(int argc, char** argv)
{
  if (argc < 2)
    return 64;
  FILE* f = fopen(argv[1], "r");
  if (!f)
    return 64;
  char tag;
  int n;
  while (fscanf(f, " %c %d", &tag, &n) == 2) {
    if (tag == 'T')
      break;
    for (int i = 0; i < n; i++) {
      int v;
      if (fscanf(f, "%d", &v) != 1)
        return 64;
      if (tag == 'M') {
        pthread_mutexattr_t at;
        pthread_mutexattr_init(&at);
        pthread_mutexattr_settype(&at, v ? PTHREAD_MUTEX_RECURSIVE : PTHREAD_MUTEX_DEFAULT);
        pthread_mutex_init(&mutexes[i], &at);
      } else if (tag == 'S')
        sem_init(&sems[i], 0, v);
      else if (tag == 'C')
        pthread_cond_init(&conds[i], NULL);
      else if (tag == 'B')
        pthread_barrier_init(&barriers[i], NULL, v);
    }
  }
  nthreads = n;
  for (int t = 0; t < nthreads; t++) {
    if (fscanf(f, "%d", &threads[t].nops) != 1)
      return 64;
    for (int i = 0; i < threads[t].nops; i++) {
      char buf[64];
      if (fscanf(f, "%63s", buf) != 1)
        return 64;
      op_t* o = &threads[t].ops[i];
      o->kind = buf[0];
      o->a = o->b = o->c = 0;
      sscanf(buf + 1, "%d,%d,%d", &o->a, &o->b, &o->c);
    }
  }
  fclose(f);
  pthread_t th[MAXTH];
  for (int t = 0; t < nthreads; t++)
    pthread_create(&th[t], NULL, body, &threads[t]);
  for (int t = 0; t < nthreads; t++)
    pthread_join(th[t], NULL);
  char out[16384];
  int p = snprintf(out, sizeof out, "OUTCOME {");
  for (int t = 0; t < nthreads; t++) {
    p += snprintf(out + p, sizeof out - p, "%s\"a%d\":[", t ? "," : "", t);
    for (int i = 0; i < threads[t].nops; i++)
      p += snprintf(out + p, sizeof out - p, "%s%s", i ? "," : "", threads[t].obs[i]);
    p += snprintf(out + p, sizeof out - p, "]");
  }
  p += snprintf(out + p, sizeof out - p, "}\n");
  /* through stdio: sthread intercepts write(2) itself (simulated disks) and refuses descriptor 1 */
  fputs(out, stdout);
  fflush(stdout);
  return 0;
}
