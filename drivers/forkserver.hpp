/* forkserver.hpp: lets one driver process execute many cases, each in a forked child.
 *
 * Why: in this sandbox process creation is serialised system-wide (~700 fork/s, ~80 exec+ld.so of libsimgrid per
 * second whatever the number of cores), and most SimGrid code cannot be re-initialised inside one process (the engine
 * is a singleton, xbt_assert aborts).  A fork of a process that already mapped libsimgrid costs ~1.4 ms.
 *
 * usage in a driver:
 *     static int run_case(const std::string& text) { ...; return 0; }   // prints observations on stdout
 *     int main(int argc, char** argv) { return vf_main(argc, argv, run_case); }
 *
 *   driver <file>               one case read from <file> ('-' = stdin), run in this very process
 *   driver --serve <errfile>    server mode: each request is one line on stdin:   <cpu-seconds> <case text>\n
 *                               the case runs in a forked child (stdout = ours, stderr = <errfile>, truncated before
 *                               each case, RLIMIT_CPU = cpu-seconds); then the server prints
 *                               "\n@@END <exit-status> <signal> <user+sys cpu ms>\n".
 */
#pragma once
#include <cstdio>
#include <cstdlib>
#include <cstring>
#include <fcntl.h>
#include <fstream>
#include <iostream>
#include <sstream>
#include <string>
#include <csignal>
#include <sys/resource.h>
#include <sys/time.h>
#include <sys/wait.h>
#include <unistd.h>

static void vf_cpu_expired(int)
{
  static const char msg[] = "\n@@END -1 24 0\n";
  if (write(1, msg, sizeof msg - 1) < 0) { /* nothing to do */
  }
  _exit(99);
}

/* In-process server for code that can be reset between cases (no fork at all: page faults are what is slow here).
 * A case that crashes or exceeds its CPU budget kills the server; the client reports it and starts a new one. */
static inline int vf_serve_inproc(const char* errfile, int (*run_case)(const std::string&))
{
  int errfd = open(errfile, O_RDWR | O_CREAT | O_TRUNC, 0600);
  if (errfd < 0)
    return 2;
  dup2(errfd, 2);
  struct rlimit core = {0, 0};
  setrlimit(RLIMIT_CORE, &core);
  signal(SIGPROF, vf_cpu_expired);
  std::string line;
  while (std::getline(std::cin, line)) {
    size_t sp        = line.find(' ');
    long cpu         = atol(line.substr(0, sp).c_str());
    std::string text = sp == std::string::npos ? "" : line.substr(sp + 1);
    fflush(stderr);
    if (ftruncate(errfd, 0) != 0) { /* ignore */
    }
    lseek(errfd, 0, SEEK_SET);
    struct itimerval it;
    memset(&it, 0, sizeof it);
    it.it_value.tv_sec = cpu > 0 ? cpu : 3600;
    setitimer(ITIMER_PROF, &it, nullptr);
    int rc = run_case(text);
    memset(&it, 0, sizeof it);
    setitimer(ITIMER_PROF, &it, nullptr);
    fflush(stderr);
    printf("\n@@END %d 0 0\n", rc);
    fflush(stdout);
  }
  return 0;
}

static inline int vf_main(int argc, char** argv, int (*run_case)(const std::string&), void (*preload)() = nullptr,
                          bool inproc = false)
{
  if (inproc && argc >= 3 && strcmp(argv[1], "--serve") == 0)
    return vf_serve_inproc(argv[2], run_case);
  if (argc >= 3 && strcmp(argv[1], "--serve") == 0) {
    int errfd = open(argv[2], O_RDWR | O_CREAT | O_TRUNC, 0600);
    if (errfd < 0) {
      perror("open errfile");
      return 2;
    }
    if (preload)
      preload();
    std::string line;
    while (std::getline(std::cin, line)) {
      size_t sp  = line.find(' ');
      long cpu   = atol(line.substr(0, sp).c_str());
      std::string text = sp == std::string::npos ? "" : line.substr(sp + 1);
      if (ftruncate(errfd, 0) != 0) { /* ignore */
      }
      lseek(errfd, 0, SEEK_SET);
      fflush(stdout);
      pid_t pid = fork();
      if (pid < 0) {
        printf("\n@@END -1 0 0\n");
        fflush(stdout);
        continue;
      }
      if (pid == 0) {
        dup2(errfd, 2);
        close(errfd);
        close(0);
        open("/dev/null", O_RDONLY);
        if (cpu > 0) {
          struct rlimit rl;
          rl.rlim_cur = cpu;
          rl.rlim_max = cpu + 1;
          setrlimit(RLIMIT_CPU, &rl);
        }
        struct rlimit core = {0, 0};
        setrlimit(RLIMIT_CORE, &core);
        int rc = run_case(text);
        fflush(stdout);
        fflush(stderr);
        _exit(rc);
      }
      int st = 0;
      struct rusage ru;
      memset(&ru, 0, sizeof ru);
      while (wait4(pid, &st, 0, &ru) < 0) {
      }
      long ms = (ru.ru_utime.tv_sec + ru.ru_stime.tv_sec) * 1000 + (ru.ru_utime.tv_usec + ru.ru_stime.tv_usec) / 1000;
      printf("\n@@END %d %d %ld\n", WIFEXITED(st) ? WEXITSTATUS(st) : -1, WIFSIGNALED(st) ? WTERMSIG(st) : 0, ms);
      fflush(stdout);
    }
    return 0;
  }
  if (argc < 2) {
    fprintf(stderr, "usage: %s <case-file|-> | --serve <errfile>\n", argv[0]);
    return 64;
  }
  std::stringstream ss;
  if (strcmp(argv[1], "-") == 0)
    ss << std::cin.rdbuf();
  else {
    std::ifstream in(argv[1]);
    if (not in) {
      fprintf(stderr, "cannot read %s\n", argv[1]);
      return 64;
    }
    ss << in.rdbuf();
  }
  int rc = run_case(ss.str());
  fflush(stdout);
  fflush(stderr);
  _exit(rc);
}
