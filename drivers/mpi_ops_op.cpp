/* mpi_ops_op.cpp: reduction operator operations of mpi_interp (C31). */
#include "mpi_interp.hpp"

using namespace mpii;
