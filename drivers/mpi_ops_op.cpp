/* mpi_ops_op.cpp: reduction operator operations of mpi_interp (C31).
 * Compound operations working on hex data, so that one case can batch many (operator, datatype, values) tests. */
#include "mpi_interp.hpp"

using namespace mpii;

static constexpr size_t G = 64; // guard bytes around every buffer

static std::vector<unsigned char> guarded(const std::vector<unsigned char>& data, size_t min_size)
{
  std::vector<unsigned char> b(std::max(data.size(), min_size) + 2 * G, 0xA5);
  memcpy(b.data() + G, data.data(), data.size());
  return b;
}

static bool guards_ok(const std::vector<unsigned char>& b, size_t used)
{
  for (size_t i = 0; i < G; i++)
    if (b[i] != 0xA5 || b[G + used + i] != 0xA5)
      return false;
  return true;
}

/* {"op":"reduce_local_hex","in":hex,"inout":hex,"count":n,"type":t,"mop":o}
 *   -> rc, "out": hex of inout after the call, "in_after": hex of in, "guards": bool */
MPI_OPERATION(reduce_local_hex)
{
  auto in     = from_hex(a.at("in").get<std::string>());
  auto inout  = from_hex(a.at("inout").get<std::string>());
  size_t n_in = in.size(), n_io = inout.size();
  auto bi = guarded(in, 0);
  auto bo = guarded(inout, 0);
  o["rc"] = MPI_Reduce_local(bi.data() + G, bo.data() + G, a.at("count").get<int>(), R.type(a), R.op(a));
  o["out"]      = to_hex(bo.data() + G, n_io);
  o["in_after"] = to_hex(bi.data() + G, n_in);
  o["guards"]   = guards_ok(bi, n_in) && guards_ok(bo, n_io);
}

/* {"op":"allreduce_hex","send":hex (per rank: {"@":[...]}),"count":n,"type":t,"mop":o,"inplace":bool?,"comm"?}
 *   -> rc, "out": hex of the receive buffer (same length as send), "send_after", "guards" */
MPI_OPERATION(allreduce_hex)
{
  auto send   = from_hex(a.at("send").get<std::string>());
  size_t n    = send.size();
  bool inplace = a.value("inplace", false);
  auto bs = guarded(send, 0);
  std::vector<unsigned char> br(n + 2 * G, 0xA5);
  memset(br.data() + G, 0x5C, n);
  if (inplace)
    memcpy(br.data() + G, send.data(), n);
  o["rc"] = MPI_Allreduce(inplace ? MPI_IN_PLACE : static_cast<void*>(bs.data() + G), br.data() + G, a.at("count").get<int>(),
                          R.type(a), R.op(a), R.comm(a));
  o["out"]        = to_hex(br.data() + G, n);
  o["send_after"] = to_hex(bs.data() + G, n);
  o["guards"]     = guards_ok(bs, n) && guards_ok(br, n);
}

/* same through MPI_Reduce to `root` */
MPI_OPERATION(reduce_hex)
{
  auto send = from_hex(a.at("send").get<std::string>());
  size_t n  = send.size();
  auto bs   = guarded(send, 0);
  std::vector<unsigned char> br(n + 2 * G, 0xA5);
  memset(br.data() + G, 0x5C, n);
  o["rc"] = MPI_Reduce(bs.data() + G, br.data() + G, a.at("count").get<int>(), R.type(a), R.op(a), a.at("root").get<int>(), R.comm(a));
  o["out"]        = to_hex(br.data() + G, n);
  o["send_after"] = to_hex(bs.data() + G, n);
  o["guards"]     = guards_ok(bs, n) && guards_ok(br, n);
}

/* {"op":"op_commutative","mop":o} */
MPI_OPERATION(op_commutative)
{
  int c   = -1;
  o["rc"] = MPI_Op_commutative(R.op(a), &c);
  o["commute"] = c;
}

/* One-sided accumulate on hex data (C31: MPI_REPLACE / MPI_NO_OP and the other predefined operators through RMA).  Collective:
 * {"op":"rma_acc_hex","win":hex (initial window content, per rank with {"@":[..]}),"data":hex (origin buffer),
 *  "origin":rank,"target":rank,"count":n,"type":t,"mop":o,"mode":"acc"|"getacc"|"fop","comm"?}
 * every rank: Win_create over its buffer, Win_fence; the origin calls MPI_Accumulate / MPI_Get_accumulate / MPI_Fetch_and_op
 * (displacement 0); Win_fence, Win_free.  -> rc (of the RMA call, on the origin), "win_after": hex, "result": hex (origin,
 * getacc/fop), "create_rc", "fence_rc", "guards" */
MPI_OPERATION(rma_acc_hex)
{
  auto win0 = from_hex(a.at("win").get<std::string>());
  auto data = from_hex(a.at("data").get<std::string>());
  size_t nw = win0.size(), nd = data.size();
  auto bw = guarded(win0, 0);
  auto bd = guarded(data, 0);
  std::vector<unsigned char> br(nd + 2 * G, 0xA5);
  memset(br.data() + G, 0x5C, nd);
  MPI_Comm comm    = R.comm(a);
  MPI_Datatype t   = R.type(a);
  int count        = a.at("count").get<int>();
  int origin       = a.at("origin").get<int>();
  int target       = a.at("target").get<int>();
  std::string mode = a.value("mode", std::string("acc"));
  int me           = -1;
  MPI_Comm_rank(comm, &me);
  MPI_Win win    = MPI_WIN_NULL;
  o["create_rc"] = MPI_Win_create(bw.data() + G, static_cast<MPI_Aint>(nw), 1, MPI_INFO_NULL, comm, &win);
  int frc        = MPI_Win_fence(0, win);
  int rc         = 0;
  if (me == origin) {
    if (mode == "acc")
      rc = MPI_Accumulate(bd.data() + G, count, t, target, 0, count, t, R.op(a), win);
    else if (mode == "getacc")
      rc = MPI_Get_accumulate(bd.data() + G, count, t, br.data() + G, count, t, target, 0, count, t, R.op(a), win);
    else if (mode == "fop")
      rc = MPI_Fetch_and_op(bd.data() + G, br.data() + G, t, target, 0, R.op(a), win);
    else
      throw BadCase("unknown rma mode");
  }
  frc |= MPI_Win_fence(0, win);
  o["rc"]        = rc;
  o["fence_rc"]  = frc;
  o["win_after"] = to_hex(bw.data() + G, nw);
  if (me == origin) {
    o["result"]     = to_hex(br.data() + G, nd);
    o["data_after"] = to_hex(bd.data() + G, nd);
  }
  o["guards"]  = guards_ok(bw, nw) && guards_ok(bd, nd) && guards_ok(br, nd);
  o["free_rc"] = MPI_Win_free(&win);
}
