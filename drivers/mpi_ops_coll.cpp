/* mpi_ops_coll.cpp: collective operations of mpi_interp for C29 (every collective algorithm computes the MPI result).
 * Part of mpi_interp (see mpi_interp.hpp / notes/MPI_INFRA.md).
 *
 *   coll_op_create   a commutative user-defined operator working on the 32-bit words of registered layouts
 *   coll_layout      tell that operator where the 32-bit words of a (derived) datatype are
 *   (coll_op_create also installs a second fatal-signal reporter: {"k":"crash2","sig","r","ci"} = the rank that was RUNNING when
 *   the signal arrived and the index of the coll operation that this rank was executing, -1 when it was in another operation)
 *   coll             ONE collective call (blocking or MPI_I* + Wait/Test) on generated buffers; reports CRC-32 of the buffers
 *
 * The driver only executes and reports: the buffers are filled with a pattern that vf/coll.py recomputes (fill()), the
 * expected content is computed in Python and compared through its CRC-32 (or byte per byte with "full": true). */
#include "mpi_interp.hpp"

#include <simgrid/Exception.hpp>
#include <simgrid/s4u/Actor.hpp>
#include <simgrid/s4u/Engine.hpp>
#include <csignal>
#include <unistd.h>
#include "smpi/include/smpi_coll.hpp" // internal: get_smpi_coll_help() = the text printed by smpirun --help-coll

using namespace mpii;

namespace {

constexpr size_t G = 256; // guard bytes on both sides of every buffer

/* ---- CRC-32 (zlib polynomial) ---- */
uint32_t crc_table[256];
bool crc_ready = false;
uint32_t crc32(const unsigned char* p, size_t n)
{
  if (not crc_ready) {
    for (uint32_t i = 0; i < 256; i++) {
      uint32_t c = i;
      for (int k = 0; k < 8; k++)
        c = (c & 1) ? 0xEDB88320u ^ (c >> 1) : c >> 1;
      crc_table[i] = c;
    }
    crc_ready = true;
  }
  uint32_t c = 0xFFFFFFFFu;
  for (size_t i = 0; i < n; i++)
    c = crc_table[(c ^ p[i]) & 0xFF] ^ (c >> 8);
  return c ^ 0xFFFFFFFFu;
}

/* ---- generated content: word k of the buffer of communicator rank r for seed s (same function in vf/coll.py) ---- */
inline uint32_t mix(uint32_t seed, uint32_t rank, uint32_t k)
{
  uint32_t h = seed * 0x9E3779B1u + rank * 0x85EBCA77u + k * 0xC2B2AE3Du + 0x27D4EB2Fu;
  h ^= h >> 15;
  h *= 0x2C1B3C6Du;
  h ^= h >> 12;
  h *= 0x297A2D39u;
  h ^= h >> 15;
  return h;
}

enum Mode { BITS, SMALL, NZ, MED, LOC, POS, HALF };

Mode mode_of(const std::string& m)
{
  static const std::map<std::string, Mode> t = {{"bits", BITS}, {"small", SMALL}, {"nz", NZ},    {"med", MED},
                                                 {"loc", LOC},   {"pos", POS},     {"half", HALF}};
  auto it = t.find(m);
  if (it == t.end())
    throw BadCase("unknown fill mode '" + m + "'");
  return it->second;
}

/* twice the value (so that HALF stays an integer) */
inline long value2(Mode m, uint32_t h, uint32_t k)
{
  static const int nz[8] = {1, 2, 3, -1, -2, -3, 1, -1};
  switch (m) {
    case BITS:
      return 2L * static_cast<int32_t>(h);
    case SMALL:
      return 2L * (static_cast<long>(h % 7) - 3);
    case NZ:
      return 2L * nz[h % 8];
    case MED:
      return 2L * (static_cast<long>(h % (1u << 20)) - (1L << 19));
    case LOC:
      return (k % 2 == 0) ? 2L * (static_cast<long>(h % 5) - 2) : 2L * static_cast<long>(h % 64);
    case POS:
      return 2L * static_cast<long>(h % (1u << 24));
    case HALF:
      return static_cast<long>(h % 15) - 7;
  }
  return 0;
}

struct Buf {
  std::vector<unsigned char> v;
  size_t n;
  explicit Buf(size_t bytes) : v(bytes + 2 * G, 0xA5), n(bytes) {}
  unsigned char* data() { return v.data() + G; }
  bool guards_ok() const
  {
    for (size_t i = 0; i < G; i++)
      if (v[i] != 0xA5 || v[G + n + i] != 0xA5)
        return false;
    return true;
  }
  /* {"w":"i4"|"f8","m":mode,"s":seed} */
  void fill(const json& f, int rank)
  {
    std::string w = f.at("w").get<std::string>();
    Mode m        = mode_of(f.at("m").get<std::string>());
    auto seed     = f.at("s").get<uint32_t>();
    if (w == "i4") {
      if (n % 4)
        throw BadCase("buffer size is not a multiple of the word size");
      for (size_t k = 0; k < n / 4; k++) {
        long v2   = value2(m, mix(seed, static_cast<uint32_t>(rank), static_cast<uint32_t>(k)), static_cast<uint32_t>(k));
        int32_t x = static_cast<int32_t>(m == HALF ? v2 : v2 / 2);
        memcpy(data() + 4 * k, &x, 4);
      }
    } else if (w == "f8") {
      if (n % 8)
        throw BadCase("buffer size is not a multiple of the word size");
      for (size_t k = 0; k < n / 8; k++) {
        long v2  = value2(m, mix(seed, static_cast<uint32_t>(rank), static_cast<uint32_t>(k)), static_cast<uint32_t>(k));
        double x = static_cast<double>(v2) * 0.5;
        memcpy(data() + 8 * k, &x, 8);
      }
    } else
      throw BadCase("unknown word kind '" + w + "'");
  }
};

/* ---- the user-defined operator: x (+) y = x + y + x*y on 32-bit unsigned words (associative and commutative: it is
 * (1+x)(1+y)-1 in Z/2^32), applied to the words of the datatype listed by coll_layout ---- */
struct Layout {
  size_t extent;
  std::vector<size_t> offs;
};
std::map<MPI_Datatype, Layout> layouts; // shared by the ranks (no privatization); every rank registers its own handles
int uop_unknown_type = 0;
long uop_calls       = 0;

void uop(void* in, void* inout, int* len, MPI_Datatype* dt)
{
  uop_calls++;
  auto it = layouts.find(*dt);
  if (it == layouts.end()) {
    uop_unknown_type++;
    return;
  }
  auto const& L = it->second;
  for (int e = 0; e < *len; e++)
    for (size_t off : L.offs) {
      uint32_t x, y;
      memcpy(&x, static_cast<unsigned char*>(in) + e * L.extent + off, 4);
      memcpy(&y, static_cast<unsigned char*>(inout) + e * L.extent + off, 4);
      y = x + y + x * y;
      memcpy(static_cast<unsigned char*>(inout) + e * L.extent + off, &y, 4);
    }
}

/* ---- accurate crash location.  mpi_interp's own crash line names the operation that was STARTED last, by any rank; a rank that
 * dies after having been blocked inside a collective is not the one that started the last operation.  Here: the rank of the actor
 * that is running when the fatal signal arrives, and the `coll` operation that this rank is executing (-1: another operation).
 * Written with write(2) before chaining to the handler of mpi_interp. ---- */
constexpr int MAXR = 4096;
int cur_coll_of_rank[MAXR];  // index in prog of the coll operation that the rank is executing, or -1
int rank_of_pid[MAXR];       // actor pid -> world rank
struct sigaction old_handlers[65];
bool crash2_installed = false;

void on_fatal_signal2(int sig)
{
  int rank = -1;
  int ci   = -1;
  if (simgrid::s4u::Actor::self() != nullptr) {
    long pid = simgrid::s4u::this_actor::get_pid();
    if (pid >= 0 && pid < MAXR) {
      rank = rank_of_pid[pid];
      if (rank >= 0 && rank < MAXR)
        ci = cur_coll_of_rank[rank];
    }
  }
  char line[160];
  int n = snprintf(line, sizeof line, "{\"k\":\"crash2\",\"sig\":%d,\"r\":%d,\"ci\":%d}\n", sig, rank, ci);
  if (n > 0 && write(1, line, static_cast<size_t>(n)) < 0) { /* nothing to do */
  }
  sigaction(sig, &old_handlers[sig], nullptr);
  raise(sig);
}

void install_crash2(Rank& R)
{
  if (not crash2_installed) {
    crash2_installed = true;
    for (int i = 0; i < MAXR; i++)
      cur_coll_of_rank[i] = rank_of_pid[i] = -1;
    for (int sig : {SIGFPE, SIGABRT, SIGBUS, SIGILL, SIGSEGV}) {
      struct sigaction sa;
      memset(&sa, 0, sizeof sa);
      sa.sa_handler = on_fatal_signal2;
      sa.sa_flags   = SA_ONSTACK | SA_NODEFER;
      sigaction(sig, &sa, &old_handlers[sig]);
    }
  }
  long pid = simgrid::s4u::this_actor::get_pid();
  if (pid >= 0 && pid < MAXR && R.rank >= 0 && R.rank < MAXR)
    rank_of_pid[pid] = R.rank;
}

struct InColl { // marks the rank as executing the coll operation number idx
  int rank;
  InColl(int r, int idx) : rank(r)
  {
    if (rank >= 0 && rank < MAXR)
      cur_coll_of_rank[rank] = idx;
  }
  ~InColl()
  {
    if (rank >= 0 && rank < MAXR)
      cur_coll_of_rank[rank] = -1;
  }
};

std::vector<MPI_Datatype> types_of(Rank& R, const json& a, const char* key)
{
  std::vector<MPI_Datatype> v;
  for (auto const& n : a.at(key))
    v.push_back(Rank::find(R.types, n.get<std::string>(), "type"));
  return v;
}

} // namespace

/* {"op":"coll_help"} -> "text": what `smpirun --help-coll` prints (the list of selectable algorithms of this tree) */
MPI_OPERATION(coll_help)
{
  o["text"] = simgrid::smpi::colls::get_smpi_coll_help();
  o["rc"]   = 0;
}

/* {"op":"coll_op_create","out":name,"commute":true?} */
MPI_OPERATION(coll_op_create)
{
  install_crash2(R);
  layouts[MPI_INT]      = Layout{4, {0}};
  layouts[MPI_UNSIGNED] = Layout{4, {0}};
  MPI_Op op             = MPI_OP_NULL;
  o["rc"]               = MPI_Op_create(uop, a.value("commute", true) ? 1 : 0, &op);
  R.ops[a.at("out").get<std::string>()] = op;
}

/* {"op":"coll_layout","type":name,"ext":bytes,"offs":[byte offsets of the 32-bit words of one element]} */
MPI_OPERATION(coll_layout)
{
  Layout L;
  L.extent = a.at("ext").get<size_t>();
  for (auto const& x : a.at("offs"))
    L.offs.push_back(x.get<size_t>());
  layouts[R.type(a)] = L;
  o["rc"]            = 0;
}

/* {"op":"coll","k":KIND,"nb":0|1|2,"comm":c,"root":r,"inplace":bool,"delay":seconds,
 *  "st":type,"rt":type,"sc":count,"rc_":count        (scalar forms; "rc_" because "rc" is the return code on output)
 *  "scs":[..],"sds":[..],"rcs":[..],"rds":[..]       (v/w forms: counts and displacements)
 *  "sts":[types],"rts":[types]                       (alltoallw)
 *  "mop":operator,
 *  "sbytes":n,"rbytes":n,"sfill":{w,m,s},"rfill":{w,m,s},   buffers and their generated content (communicator rank based)
 *  "rcheck":bytes                                    CRC of the receive buffer limited to its first bytes (rest: unspecified)
 *  "full":bool}                                      also report the buffers in hex
 * KIND: barrier bcast gather gatherv scatter scatterv allgather allgatherv alltoall alltoallv alltoallw reduce allreduce
 *       reduce_scatter reduce_scatter_block scan exscan.  nb: 0 = blocking call, 1 = MPI_I* then MPI_Wait, 2 = MPI_I* then
 *       MPI_Test until completion.  bcast uses the receive buffer ("rt","rc_","rbytes","rfill") on every rank.
 * inplace: MPI_IN_PLACE as send buffer (on the root only for gather(v)/reduce; as receive buffer of the root for scatter(v)).
 *  -> rc, "exc", "cr" (rank in comm), "p", "t_in","t_out" (simulated dates around the call), "scrc","rcrc" (CRC-32 of the buffers
 *     after the call), "guards", "wait_rc", "req_null", "tests", "uop_unknown"; "skip":"nocomm" when the communicator does not exist */
MPI_OPERATION(coll)
{
  std::string k     = a.at("k").get<std::string>();
  std::string cname = a.value("comm", std::string("world"));
  auto cit          = R.comms.find(cname);
  if (cit == R.comms.end() || cit->second == MPI_COMM_NULL) {
    o["rc"]   = -1;
    o["skip"] = "nocomm";
    return;
  }
  MPI_Comm comm = cit->second;
  InColl marker(R.rank, o.value("i", -1));
  int me = -1, p = 0;
  MPI_Comm_rank(comm, &me);
  MPI_Comm_size(comm, &p);
  o["cr"]      = me;
  o["p"]       = p;
  int nb       = a.value("nb", 0);
  int root     = a.value("root", 0);
  bool inplace = a.value("inplace", false);
  Buf sb(a.value("sbytes", static_cast<size_t>(0)));
  Buf rb(a.value("rbytes", static_cast<size_t>(0)));
  if (sb.n > (64u << 20) || rb.n > (64u << 20))
    throw BadCase("buffer too large");
  if (a.contains("sfill"))
    sb.fill(a.at("sfill"), me);
  if (a.contains("rfill"))
    rb.fill(a.at("rfill"), me);
  MPI_Datatype st = a.contains("st") ? R.type(a, "st") : MPI_DATATYPE_NULL;
  MPI_Datatype rt = a.contains("rt") ? R.type(a, "rt") : MPI_DATATYPE_NULL;
  int sc          = a.value("sc", 0);
  int rc_         = a.value("rc_", 0);
  std::vector<int> scs = ints(a, "scs"), sds = ints(a, "sds"), rcs = ints(a, "rcs"), rds = ints(a, "rds");
  std::vector<MPI_Datatype> sts, rts;
  if (a.contains("sts"))
    sts = types_of(R, a, "sts");
  if (a.contains("rts"))
    rts = types_of(R, a, "rts");
  MPI_Op mop = a.contains("mop") ? R.op(a) : MPI_OP_NULL;
  void* sp   = sb.data();
  void* rp   = rb.data();
  bool rooted = k == "gather" || k == "gatherv" || k == "reduce" || k == "scatter" || k == "scatterv";
  if (inplace && (not rooted || me == root)) {
    if (k == "scatter" || k == "scatterv")
      rp = MPI_IN_PLACE;
    else
      sp = MPI_IN_PLACE;
  }
  double delay = a.value("delay", 0.0);
  if (delay > 0)
    simgrid::s4u::this_actor::sleep_for(delay);

  MPI_Request req  = MPI_REQUEST_NULL;
  MPI_Request* rq  = nb ? &req : nullptr;
  int uop_before   = uop_unknown_type;
  o["t_in"]        = simgrid::s4u::Engine::get_clock();
  int rc           = -2;
  try {
    if (k == "barrier")
      rc = rq ? MPI_Ibarrier(comm, rq) : MPI_Barrier(comm);
    else if (k == "bcast")
      rc = rq ? MPI_Ibcast(rp, rc_, rt, root, comm, rq) : MPI_Bcast(rp, rc_, rt, root, comm);
    else if (k == "gather")
      rc = rq ? MPI_Igather(sp, sc, st, rp, rc_, rt, root, comm, rq) : MPI_Gather(sp, sc, st, rp, rc_, rt, root, comm);
    else if (k == "gatherv")
      rc = rq ? MPI_Igatherv(sp, sc, st, rp, ptr(rcs), ptr(rds), rt, root, comm, rq)
              : MPI_Gatherv(sp, sc, st, rp, ptr(rcs), ptr(rds), rt, root, comm);
    else if (k == "scatter")
      rc = rq ? MPI_Iscatter(sp, sc, st, rp, rc_, rt, root, comm, rq) : MPI_Scatter(sp, sc, st, rp, rc_, rt, root, comm);
    else if (k == "scatterv")
      rc = rq ? MPI_Iscatterv(sp, ptr(scs), ptr(sds), st, rp, rc_, rt, root, comm, rq)
              : MPI_Scatterv(sp, ptr(scs), ptr(sds), st, rp, rc_, rt, root, comm);
    else if (k == "allgather")
      rc = rq ? MPI_Iallgather(sp, sc, st, rp, rc_, rt, comm, rq) : MPI_Allgather(sp, sc, st, rp, rc_, rt, comm);
    else if (k == "allgatherv")
      rc = rq ? MPI_Iallgatherv(sp, sc, st, rp, ptr(rcs), ptr(rds), rt, comm, rq)
              : MPI_Allgatherv(sp, sc, st, rp, ptr(rcs), ptr(rds), rt, comm);
    else if (k == "alltoall")
      rc = rq ? MPI_Ialltoall(sp, sc, st, rp, rc_, rt, comm, rq) : MPI_Alltoall(sp, sc, st, rp, rc_, rt, comm);
    else if (k == "alltoallv")
      rc = rq ? MPI_Ialltoallv(sp, ptr(scs), ptr(sds), st, rp, ptr(rcs), ptr(rds), rt, comm, rq)
              : MPI_Alltoallv(sp, ptr(scs), ptr(sds), st, rp, ptr(rcs), ptr(rds), rt, comm);
    else if (k == "alltoallw")
      rc = rq ? MPI_Ialltoallw(sp, ptr(scs), ptr(sds), ptr(sts), rp, ptr(rcs), ptr(rds), ptr(rts), comm, rq)
              : MPI_Alltoallw(sp, ptr(scs), ptr(sds), ptr(sts), rp, ptr(rcs), ptr(rds), ptr(rts), comm);
    else if (k == "reduce")
      rc = rq ? MPI_Ireduce(sp, rp, sc, st, mop, root, comm, rq) : MPI_Reduce(sp, rp, sc, st, mop, root, comm);
    else if (k == "allreduce")
      rc = rq ? MPI_Iallreduce(sp, rp, sc, st, mop, comm, rq) : MPI_Allreduce(sp, rp, sc, st, mop, comm);
    else if (k == "reduce_scatter")
      rc = rq ? MPI_Ireduce_scatter(sp, rp, ptr(rcs), st, mop, comm, rq) : MPI_Reduce_scatter(sp, rp, ptr(rcs), st, mop, comm);
    else if (k == "reduce_scatter_block")
      rc = rq ? MPI_Ireduce_scatter_block(sp, rp, rc_, st, mop, comm, rq) : MPI_Reduce_scatter_block(sp, rp, rc_, st, mop, comm);
    else if (k == "scan")
      rc = rq ? MPI_Iscan(sp, rp, sc, st, mop, comm, rq) : MPI_Scan(sp, rp, sc, st, mop, comm);
    else if (k == "exscan")
      rc = rq ? MPI_Iexscan(sp, rp, sc, st, mop, comm, rq) : MPI_Exscan(sp, rp, sc, st, mop, comm);
    else
      throw BadCase("unknown collective '" + k + "'");
    if (rq != nullptr && rc == MPI_SUCCESS) {
      MPI_Status status;
      int tests = 0;
      int wrc   = MPI_SUCCESS;
      if (nb == 2) {
        int flag = 0;
        while (not flag && tests < 20000 && wrc == MPI_SUCCESS) {
          wrc = MPI_Test(rq, &flag, &status);
          tests++;
        }
        if (not flag && wrc == MPI_SUCCESS)
          wrc = MPI_Wait(rq, &status);
      } else {
        wrc = MPI_Wait(rq, &status);
      }
      o["wait_rc"]  = wrc;
      o["tests"]    = tests;
      o["req_null"] = req == MPI_REQUEST_NULL;
    }
  } catch (simgrid::ForcefulKillException const&) {
    throw;
  } catch (BadCase const&) {
    throw;
  } catch (std::exception const& e) {
    o["exc"] = e.what();
  }
  o["t_out"]  = simgrid::s4u::Engine::get_clock();
  o["rc"]     = rc;
  o["scrc"]   = crc32(sb.data(), sb.n);
  o["rcrc"]   = crc32(rb.data(), std::min(rb.n, a.value("rcheck", rb.n)));
  o["guards"] = sb.guards_ok() && rb.guards_ok();
  if (uop_unknown_type != uop_before)
    o["uop_unknown"] = uop_unknown_type - uop_before;
  if (a.value("full", false)) {
    o["shex"] = to_hex(sb.data(), sb.n);
    o["rhex"] = to_hex(rb.data(), rb.n);
  }
}
