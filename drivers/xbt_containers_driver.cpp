// vf-driver: kind=cxx
/* xbt_containers_driver (C50): executes one history of operations on a fresh xbt_dynar or xbt_dict and prints what every
 * operation returned plus (while the container is small) its full content as seen through the iteration API.
 *
 * case: {"kind":"dynar","mode":"scalar"|"ptr","elmsize":N,"ops":[...],"end":"free"|"free_container","fork":bool}
 *       {"kind":"dict","free_f":bool,"ops":[...],"fork":bool}
 * "fork":true runs the history in a forked child (used for the histories whose last operation violates a documented
 * precondition and must abort): the parent then prints {"child":{"status":..,"signal":..}}.
 *
 * dynar, scalar mode: an element is `elmsize` bytes derived from an integer v (enc() below), printed as hex.
 * dynar, ptr mode   : an element is a pointer to an Obj{uid}; a new Obj is created by every inserting operation, uids count
 *                     from 0 in creation order; free_f marks the object freed and logs its uid (memory is released at the end
 *                     of the case so that pointer values stay unique); printed as uid + 100000*times_mapped, -1 for NULL.
 * dict: data = pointer to a fresh Obj (or NULL when the op says so), free_f (optional) logs like above.
 * No oracle here.
 */
#include "src/xbt/dict_private.h"
#include "xbt/dict.h"
#include "xbt/dynar.h"
#include "xbt/log.h"

#include "forkserver.hpp"

#include <nlohmann/json.hpp>
#include <stdexcept>
#include <vector>

using json = nlohmann::json;

struct Obj {
  int uid;
  int freed;
  int mapped;
};
static std::vector<Obj*> registry;
static std::vector<int> freed_log;
static const size_t DUMP_MAX = 48;
static bool g_flush           = false; // forked child: flush after every line (an abort() would lose buffered lines)

static Obj* new_obj()
{
  auto* o = new Obj{static_cast<int>(registry.size()), 0, 0};
  registry.push_back(o);
  return o;
}
static void note_free(Obj* o)
{
  if (o == nullptr) {
    freed_log.push_back(-1);
    return;
  }
  o->freed++;
  freed_log.push_back(o->freed > 1 ? -1000 - o->uid : o->uid); // a second free of the same object is logged as -1000-uid
}
static void dynar_free_f(void* slot) // dynar free functions get the address of the slot
{
  note_free(*static_cast<Obj**>(slot));
}
static void dict_free_f(void* content) // dict free functions get the content itself
{
  note_free(static_cast<Obj*>(content));
}

static void enc(long v, unsigned long elmsize, unsigned char* out)
{
  for (unsigned long i = 0; i < elmsize; i++)
    out[i] = static_cast<unsigned char>(((v >> (8 * (i & 3))) ^ (0x9e * (i >> 2))) & 0xff);
}
static std::string hex(const unsigned char* p, unsigned long n)
{
  static const char* d = "0123456789abcdef";
  std::string s;
  for (unsigned long i = 0; i < n; i++) {
    s += d[p[i] >> 4];
    s += d[p[i] & 15];
  }
  return s;
}
static long objval(const Obj* o)
{
  return o == nullptr ? -1 : o->uid + 100000L * o->mapped;
}

static unsigned long g_elmsize;
static int cmp_scalar(const void* a, const void* b)
{
  return memcmp(a, b, g_elmsize);
}
static int cmp_ptr(const void* a, const void* b)
{
  long x = objval(*static_cast<Obj* const*>(a));
  long y = objval(*static_cast<Obj* const*>(b));
  return x < y ? -1 : (x > y ? 1 : 0);
}
static void map_scalar(void* elm)
{
  static_cast<unsigned char*>(elm)[0] ^= 0x5a;
}
static void map_ptr(void* slot)
{
  if (Obj* o = *static_cast<Obj**>(slot))
    o->mapped++;
}

static json take_freed()
{
  json f = json::array();
  for (int u : freed_log)
    f.push_back(u);
  freed_log.clear();
  return f;
}

/* ------------------------------------------------------------------------------------------ dynar */
static json dynar_dump(xbt_dynar_t d, bool ptr, unsigned long elmsize)
{
  json c = json::array();
  unsigned int cursor;
  if (ptr) {
    Obj* o;
    xbt_dynar_foreach (d, cursor, o)
      c.push_back(objval(o));
  } else {
    std::vector<unsigned char> buf(elmsize);
    for (cursor = 0; _xbt_dynar_cursor_get(d, cursor, buf.data()); cursor++)
      c.push_back(hex(buf.data(), elmsize));
  }
  return c;
}

static void run_dynar(const json& c)
{
  bool ptr              = c["mode"] == "ptr";
  unsigned long elmsize = ptr ? sizeof(void*) : c["elmsize"].get<unsigned long>();
  g_elmsize             = elmsize;
  xbt_dynar_t d         = xbt_dynar_new(elmsize, ptr && c.value("free_f", true) ? dynar_free_f : nullptr);
  std::vector<unsigned char> buf(elmsize + 8);
  std::vector<unsigned char> dst(elmsize + 8);
  unsigned long last_size = d->size;
  int resizes             = 0;

  auto val = [&](const json& v) -> const void* { // the bytes to insert for value v (scalar) / a fresh object (ptr)
    if (ptr) {
      Obj* o = new_obj();
      memcpy(buf.data(), &o, sizeof o);
    } else
      enc(v.get<long>(), elmsize, buf.data());
    return buf.data();
  };
  auto show = [&](const void* p) -> json { // an element copied out of the dynar
    if (ptr) {
      Obj* o;
      memcpy(&o, p, sizeof o);
      return objval(o);
    }
    return hex(static_cast<const unsigned char*>(p), elmsize);
  };

  for (auto const& op : c["ops"]) {
    std::string o = op[0];
    json out;
    if (o == "push")
      xbt_dynar_push(d, val(op[1]));
    else if (o == "push_ptr") {
      const void* v = val(op[1]);
      memcpy(xbt_dynar_push_ptr(d), v, elmsize);
    } else if (o == "unshift")
      xbt_dynar_unshift(d, val(op[1]));
    else if (o == "insert_at")
      xbt_dynar_insert_at(d, op[1].get<int>(), val(op[2]));
    else if (o == "insert_at_ptr") {
      const void* v = val(op[2]);
      memcpy(xbt_dynar_insert_at_ptr(d, op[1].get<int>()), v, elmsize);
    } else if (o == "set") {
      const void* v = val(op[2]);
      memcpy(xbt_dynar_set_at_ptr(d, op[1].get<unsigned long>()), v, elmsize);
    } else if (o == "pop") {
      xbt_dynar_pop(d, dst.data());
      out["r"] = show(dst.data());
    } else if (o == "pop_free")
      xbt_dynar_pop(d, nullptr);
    else if (o == "pop_ptr")
      out["r"] = show(xbt_dynar_pop_ptr(d));
    else if (o == "shift") {
      xbt_dynar_shift(d, dst.data());
      out["r"] = show(dst.data());
    } else if (o == "shift_free")
      xbt_dynar_shift(d, nullptr);
    else if (o == "remove_at") {
      xbt_dynar_remove_at(d, op[1].get<int>(), dst.data());
      out["r"] = show(dst.data());
    } else if (o == "remove_at_free")
      xbt_dynar_remove_at(d, op[1].get<int>(), nullptr);
    else if (o == "get_cpy") {
      xbt_dynar_get_cpy(d, op[1].get<long>(), dst.data());
      out["r"] = show(dst.data());
    } else if (o == "get_ptr")
      out["r"] = show(xbt_dynar_get_ptr(d, op[1].get<long>()));
    else if (o == "getlast")
      out["r"] = show(xbt_dynar_get_ptr(d, xbt_dynar_length(d) - 1));
    else if (o == "getfirst")
      out["r"] = show(xbt_dynar_get_ptr(d, 0));
    else if (o == "member") {
      if (ptr) { // op[1] = uid of an object created earlier (or >= #objects: an object that never was in the dynar)
        size_t u         = op[1].get<size_t>();
        static Obj never = {-7, 0, 0};
        Obj* p           = u < registry.size() ? registry[u] : &never;
        out["r"]         = xbt_dynar_member(d, &p);
      } else {
        enc(op[1].get<long>(), elmsize, buf.data());
        out["r"] = xbt_dynar_member(d, buf.data());
      }
    } else if (o == "sort")
      xbt_dynar_sort(d, ptr ? cmp_ptr : cmp_scalar);
    else if (o == "map")
      xbt_dynar_map(d, ptr ? map_ptr : map_scalar);
    else if (o == "reset")
      xbt_dynar_reset(d);
    else if (o == "length")
      out["r"] = {xbt_dynar_length(d), xbt_dynar_is_empty(d)};
    else if (o == "foreach")
      out["c"] = dynar_dump(d, ptr, elmsize);
    else if (o == "null") { // documented behaviour on a NULL dynar
      xbt_dynar_t nul = nullptr;
      unsigned int cursor;
      int seen = 0;
      void* x;
      xbt_dynar_foreach (nul, cursor, x)
        seen++;
      xbt_dynar_free(&nul);
      xbt_dynar_free_container(&nul);
      out["r"] = {xbt_dynar_length(nul), xbt_dynar_is_empty(nul), seen};
    } else
      out["error"] = "unknown op " + o;
    out["n"] = xbt_dynar_length(d);
    if (d->size != last_size) {
      resizes++;
      last_size = d->size;
    }
    out["rs"] = resizes;
    if (not out.contains("c") && xbt_dynar_length(d) <= DUMP_MAX)
      out["c"] = dynar_dump(d, ptr, elmsize);
    out["f"] = take_freed();
    printf("%s\n", out.dump().c_str());
    if (g_flush)
      fflush(stdout);
  }
  json out;
  if (c.value("end", "free") == "free")
    xbt_dynar_free(&d);
  else
    xbt_dynar_free_container(&d);
  out["end"] = d == nullptr;
  out["f"]   = take_freed();
  printf("%s\n", out.dump().c_str());
}

/* ------------------------------------------------------------------------------------------ dict */
static json dict_dump(xbt_dict_t d)
{
  json c                   = json::array();
  xbt_dict_cursor_t cursor = nullptr;
  char* key;
  Obj* data;
  xbt_dict_foreach (d, cursor, key, data) {
    // the length of a (possibly binary) key is only known to the element the cursor points to
    c.push_back({std::string(key, cursor->current->key_len), objval(data)});
  }
  c.push_back(cursor == nullptr); // the foreach idiom frees the cursor at the end
  return c;
}

static void run_dict(const json& c)
{
  xbt_dict_t d   = xbt_dict_new_homogeneous(c["free_f"].get<bool>() ? dict_free_f : nullptr);
  int last_table = d->table_size;
  int rehashes   = 0;
  auto data_of   = [](const json& has) -> void* { return has.get<bool>() ? new_obj() : nullptr; };
  auto chain_len = [&](const std::string& k) { // length of the bucket chain that holds key k (0 when absent)
    for (int b = 0; b <= d->table_size; b++) {
      int n      = 0;
      bool found = false;
      for (xbt_dictelm_t e = d->table[b]; e; e = e->next) {
        n++;
        if (e->key_len == static_cast<int>(k.size()) && memcmp(e->key, k.data(), k.size()) == 0)
          found = true;
      }
      if (found)
        return n;
    }
    return 0;
  };
  for (auto const& op : c["ops"]) {
    std::string o = op[0];
    json out;
    if (o == "set") {
      std::string k = op[1];
      xbt_dict_set(d, k.c_str(), data_of(op[2]));
    } else if (o == "set_ext") {
      std::string k = op[1];
      xbt_dict_set_ext(d, k.data(), static_cast<int>(k.size()), data_of(op[2]));
    } else if (o == "get") {
      std::string k = op[1];
      out["r"]      = objval(static_cast<Obj*>(xbt_dict_get_or_null(d, k.c_str())));
    } else if (o == "get_ext") {
      std::string k = op[1];
      out["r"]      = objval(static_cast<Obj*>(xbt_dict_get_or_null_ext(d, k.data(), static_cast<int>(k.size()))));
    } else if (o == "get_elm") {
      std::string k   = op[1];
      xbt_dictelm_t e = xbt_dict_get_elm_or_null(d, k.c_str());
      if (e == nullptr)
        out["r"] = nullptr;
      else
        out["r"] = {std::string(e->key, e->key_len), e->key_len, objval(static_cast<Obj*>(e->content)),
                    e->key[e->key_len] == '\0'};
    } else if (o == "remove") {
      std::string k = op[1];
      out["chain"]  = chain_len(k);
      try {
        xbt_dict_remove_ext(d, k.data(), static_cast<int>(k.size()));
        out["r"] = "ok";
      } catch (const std::out_of_range&) {
        out["r"] = "throw";
      }
    } else if (o == "fill") { // bulk insertion of the keys prefix + chr(start+i)
      std::string p = op[1];
      int start     = op[2].get<int>();
      for (int i = 0; i < op[3].get<int>(); i++) {
        std::string k = p + static_cast<char>(start + i);
        xbt_dict_set_ext(d, k.data(), static_cast<int>(k.size()), new_obj());
      }
    } else if (o == "drain") { // bulk removal of the keys prefix + chr(start+i); r = number of std::out_of_range
      std::string p = op[1];
      int start     = op[2].get<int>();
      int thrown    = 0;
      for (int i = 0; i < op[3].get<int>(); i++) {
        std::string k = p + static_cast<char>(start + i);
        try {
          xbt_dict_remove_ext(d, k.data(), static_cast<int>(k.size()));
        } catch (const std::out_of_range&) {
          thrown++;
        }
      }
      out["r"] = thrown;
    } else if (o == "length")
      out["r"] = {xbt_dict_length(d), xbt_dict_size(d), xbt_dict_is_empty(d)};
    else if (o == "foreach")
      out["c"] = dict_dump(d);
    else if (o == "cursor") { // explicit cursor API: op[1] = list of "step"|"rewind"|"first"; r = what was seen before each
      xbt_dict_cursor_t cur = xbt_dict_cursor_new(d);
      json seen             = json::array();
      // a new cursor sits on table[0] (possibly no element): xbt_dict_cursor_first() positions it on the first element
      xbt_dict_cursor_first(d, &cur);
      for (auto const& a : op[1]) {
        if (cur->current == nullptr)
          seen.push_back(nullptr);
        else
          seen.push_back({std::string(xbt_dict_cursor_get_key(cur), cur->current->key_len),
                          objval(static_cast<Obj*>(xbt_dict_cursor_get_data(cur)))});
        std::string act = a;
        if (act == "step") {
          if (cur->current != nullptr) // stepping past the end is not part of the documented usage
            xbt_dict_cursor_step(cur);
        } else if (act == "rewind") {
          xbt_dict_cursor_first(d, &cur);
        }
      }
      xbt_dict_cursor_free(&cur);
      out["r"]    = seen;
      out["cnul"] = cur == nullptr;
    } else if (o == "null") {
      xbt_dict_t nul = nullptr;
      xbt_dict_free(&nul);
      xbt_dict_cursor_t cursor = nullptr;
      char* key;
      void* data;
      int seen = 0;
      xbt_dict_foreach (nul, cursor, key, data)
        seen++;
      out["r"] = {xbt_dict_size(nul), xbt_dict_is_empty(nul), seen, cursor == nullptr};
    } else
      out["error"] = "unknown op " + o;
    out["n"] = xbt_dict_length(d);
    if (d->table_size != last_table) {
      rehashes++;
      last_table = d->table_size;
    }
    out["rs"] = rehashes;
    // always dump after a removal by a key with an embedded NUL (the class of a known defect must be judged on the spot)
    bool nul_removal = o == "remove" && op[1].get<std::string>().find('\0') != std::string::npos;
    if (not out.contains("c") && (xbt_dict_length(d) <= static_cast<int>(DUMP_MAX) || nul_removal))
      out["c"] = dict_dump(d);
    out["f"] = take_freed();
    printf("%s\n", out.dump().c_str());
    if (g_flush)
      fflush(stdout);
  }
  json out;
  xbt_dict_free(&d);
  out["end"] = d == nullptr;
  out["f"]   = take_freed();
  printf("%s\n", out.dump().c_str());
}

static void run_history(const json& c)
{
  freed_log.clear();
  if (c["kind"] == "dynar")
    run_dynar(c);
  else
    run_dict(c);
  for (Obj* o : registry)
    delete o;
  registry.clear();
  printf("{\"done\":true}\n");
}

static int run_case(const std::string& text)
{
  json c = json::parse(text);
  if (c.value("fork", false)) {
    fflush(stdout);
    pid_t pid = fork();
    if (pid == 0) {
      g_flush = true;
      run_history(c);
      fflush(stdout);
      _exit(0);
    }
    int st = 0;
    while (waitpid(pid, &st, 0) < 0) {
    }
    printf("{\"child\":{\"status\":%d,\"signal\":%d}}\n", WIFEXITED(st) ? WEXITSTATUS(st) : -1,
           WIFSIGNALED(st) ? WTERMSIG(st) : 0);
    return 0;
  }
  run_history(c);
  return 0;
}

int main(int argc, char** argv)
{
  return vf_main(argc, argv, run_case, nullptr, true);
}
